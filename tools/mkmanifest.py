#!/venv/bin/python
"""Regenerate /verif/MANIFEST.json from the property modules that exist."""
import importlib
import json
import os
import sys

HERE = os.path.dirname(os.path.dirname(os.path.abspath(__file__)))
sys.path.insert(0, HERE)

ALL = ["C%02d" % i for i in range(1, 21)]
BASE_OFF = ("cd /repo && /venv/bin/python -m pytest -ra -q -p no:cacheprovider --timeout=900 "
            "--continue-on-collection-errors")

checks, na = [], []
for pid in ALL:
    path = os.path.join(HERE, "pmv", "props", pid + ".py")
    if not os.path.exists(path):
        na.append({"property_id": pid, "reason": "check not built yet (planned in DESIGN.md section 3/%s)" % pid})
        continue
    src = open(path).read()
    ns = {}
    # cheap static read of the module-level constants (no import of pyModeS needed)
    import ast
    tree = ast.parse(src)
    for node in tree.body:
        if isinstance(node, ast.Assign) and len(node.targets) == 1 and isinstance(node.targets[0], ast.Name):
            if node.targets[0].id in ("LEVEL", "LEVEL_TEXT", "LEVEL_NOTE", "TECHNIQUE", "LEVEL_RULE"):
                try:
                    ns[node.targets[0].id] = ast.literal_eval(node.value)
                except Exception:
                    pass
    checks.append({
        "property_id": pid,
        "quick_cmd": "./check %s --tier quick" % pid,
        "thorough_cmd": "./check %s --tier thorough" % pid,
        "evidence_file": "/verif/evidence/%s.json" % pid,
        "replay_cmd_template": "./check %s --replay {path}" % pid,
        "engine": "pmv",
        "level_claimed": {
            "category": ns.get("LEVEL", "exploration"),
            "text": ns.get("LEVEL_TEXT", ns.get("LEVEL_RULE", "")),
            "design_ref": "DESIGN.md section 3/%s" % pid,
        },
        "level_note": ns.get("LEVEL_NOTE", "Trusted base: the reference models in /verif/pmv/ref (written forward from "
                             "the standards, no pyModeS import), CPython, numpy. Held = held on the executions observed."),
        "technique": ns.get("TECHNIQUE", "runtime monitoring: oracle over observed executions of the real code") +
        ("" if pid in ("C16", "C17", "C19") else "; plus the generic replay phases on a recorded sample of the calls (shuffled order, after "
         "helper / foreign-decoder calls, arguments by name, numpy.str_ messages, other numpy print options, 4 concurrent "
         "threads, cold-start threads in fresh interpreters): f(x) must stay f(x)"),
    })

manifest = {
    "version": 1,
    "setup_cmd": ("/venv/bin/python -m pip install -q --no-index --find-links /opt/veriftools/wheels "
                  "--target /verif/.deps icontract; /venv/bin/python -m compileall -q /verif/pmv >/dev/null; true"),
    "hooks": {
        "guard": "PYMODES_VERIF",
        "enable": "no source hooks are needed: every monitor attaches from outside (module-attribute wrapping, "
                  "icontract post-conditions, state inspection of pure-Python objects); the guard name is reserved",
        "baseline_off_cmd": BASE_OFF,
        "source_commits": [],
        "add_only": True,
    },
    "engines": [{
        "name": "pmv",
        "path": "/verif/pmv",
        "serves_properties": [c["property_id"] for c in checks],
        "kind_free_text": "runtime monitors: generated workloads executed against /repo's working tree, probes on "
                          "call/return and object state, forward reference models as oracles, sanitised C twin (C15)",
    }],
    "checks": checks,
    "not_applicable": na,
    "notes": "./check <id> --tier quick|thorough; honours VERIF_SEED, VERIF_TIER, PMV_REPO (default /repo). exit 0 held, "
             "1 violation (VIOLATION line), 2 inconclusive (never on the unchanged tree). Known findings: "
             "/verif/KNOWN_FINDINGS.txt (keyed by mechanism).",
}
with open(os.path.join(HERE, "MANIFEST.json"), "w") as f:
    json.dump(manifest, f, indent=1)
print("checks:", [c["property_id"] for c in checks])
print("not built:", [n["property_id"] for n in na])
