#!/venv/bin/python
"""Apply every seeded change to a scratch worktree of /repo HEAD (outside /repo and /verif), confirm its demo fails there,
run the quick check of its property with PMV_REPO pointing at the worktree, expect exit 1; remove the worktree.
usage: tools/rerun_seeded.py [name-substring ...] [--tier thorough]"""
import glob, json, os, subprocess, sys, tempfile, concurrent.futures as cf
tier = "quick"
args = [a for a in sys.argv[1:]]
if "--tier" in args:
    tier = args[args.index("--tier") + 1]
    del args[args.index("--tier"):args.index("--tier") + 2]


def one(d):
    name = os.path.basename(d)
    meta = json.load(open(os.path.join(d, "meta.json")))
    prop = meta["property"]
    w = tempfile.mkdtemp(prefix="pmvseed-")
    os.rmdir(w)
    try:
        subprocess.run(["git", "-C", "/repo", "worktree", "add", "-q", w, "HEAD"], check=True, capture_output=True)
        a = subprocess.run(["git", "-C", w, "apply", os.path.join(d, "patch.diff")], capture_output=True, text=True)
        note = ""
        if a.returncode != 0 and meta.get("base_commit_of_repo"):
            # a later fix commit touched the same lines: fall back to the commit the change was written against
            subprocess.run(["git", "-C", w, "checkout", "-q", "--detach", meta["base_commit_of_repo"]], capture_output=True)
            a = subprocess.run(["git", "-C", w, "apply", os.path.join(d, "patch.diff")], capture_output=True, text=True)
            note = " (on its base commit %s)" % meta["base_commit_of_repo"]
        if a.returncode != 0:
            return name, prop, "PATCH-DOES-NOT-APPLY", ""
        env = dict(os.environ, PYTHONPATH=w + "/src")
        demo = os.path.join(d, "demo.py")
        if name.startswith("C15") and PLAIN:
            import shutil
            so = [f for f in os.listdir(PLAIN) if f.endswith(".so")][0]
            os.makedirs(os.path.join(w, "prebuilt"), exist_ok=True)
            shutil.copy(os.path.join(PLAIN, so), os.path.join(w, "prebuilt", so))
            shutil.copy(demo, os.path.join(w, "demo_c15.py"))
            demo = os.path.join(w, "demo_c15.py")
            env["C15_PREBUILT"] = os.path.join(w, "prebuilt", so)
        t = subprocess.run(["/venv/bin/python", "-m", "pytest", "-q", "-x", "-p", "no:cacheprovider", "tests"], cwd=w, env=env, capture_output=True, text=True)
        dm = subprocess.run(["/venv/bin/python", demo], cwd=w, env=env, capture_output=True, text=True, timeout=600)
        # a change that only the thorough tier reaches (a memo of 2**20 slots needs a million messages) is re-run with that tier
        tier_ = "thorough" if meta.get("thorough_tier_only") else tier
        r = subprocess.run(["/verif/check", prop, "--tier", tier_], env=dict(os.environ, PMV_REPO=w, PMV_JOBS="6" if tier_ == "quick" else "16"), capture_output=True, text=True, cwd="/verif")
        keys = [l.split("key=")[1].split()[0] for l in r.stdout.splitlines() if l.startswith("VIOLATION") and "key=" in l]
        if meta.get("documented_miss"):
            status = ("STILL-MISSED (documented limit, see meta.json)" if r.returncode == 0 else "CAUGHT (was a documented miss)")
        elif meta.get("property_holds_on_changed_tree"):
            # a change that turned out NOT to break the property inside its quantified domain: the check has to stay silent
            status = ("CAUGHT (silent as it should be: property holds)" if r.returncode == 0 else "FALSE-ALARM(exit %d)" % r.returncode)
        else:
            status = ("CAUGHT" if r.returncode == 1 else "MISSED(exit %d)" % r.returncode)
        return name, prop, "%s%s tests=%s demo_exit=%d" % (status, note, "pass" if t.returncode == 0 else "FAIL", dm.returncode), ",".join(keys[:3])
    finally:
        subprocess.run(["git", "-C", "/repo", "worktree", "remove", "--force", w], capture_output=True)


def plain_c_twin():
    """a non-sanitised build of the current C twin for the C15 demos (they load it through C15_PREBUILT)"""
    sys.path.insert(0, "/verif")
    from pmv import cbuild
    import sysconfig
    src, origin = cbuild.source()
    if src is None:
        return None
    d = tempfile.mkdtemp(prefix="pmvc15-")
    open(os.path.join(d, "c.c"), "w").write(src)
    so = os.path.join(d, "c_common" + sysconfig.get_config_var("EXT_SUFFIX"))
    r = subprocess.run(["clang", "-O1", "-shared", "-fPIC", "-Wno-everything", "-I", sysconfig.get_paths()["include"], os.path.join(d, "c.c"), "-o", so],
                       capture_output=True)
    os.remove(os.path.join(d, "c.c"))
    return d if r.returncode == 0 else None


ds = sorted(glob.glob("/verif/seeded/*"))
if args:
    ds = [d for d in ds if any(a in d for a in args)]
PLAIN = plain_c_twin() if any(os.path.basename(d).startswith("C15") for d in ds) else None
bad = 0
with cf.ThreadPoolExecutor(max_workers=3) as ex:
    for name, prop, st, keys in ex.map(one, ds):
        if not st.startswith("CAUGHT") and not st.startswith("STILL-MISSED (documented"):
            bad += 1
        print("%-48s %-4s %-40s %s" % (name, prop, st, keys))
if PLAIN:
    import shutil
    shutil.rmtree(PLAIN, ignore_errors=True)
print("seeded changes: %d, not caught: %d" % (len(ds), bad))
sys.exit(1 if bad else 0)
