#!/venv/bin/python
"""Apply every seeded change to a scratch worktree of /repo HEAD (outside /repo and /verif), confirm its demo fails there,
run the quick check of its property with PMV_REPO pointing at the worktree, expect exit 1; remove the worktree.
usage: tools/rerun_seeded.py [name-substring ...] [--tier thorough]"""
import glob, json, os, subprocess, sys, tempfile, concurrent.futures as cf
tier = "quick"
args = [a for a in sys.argv[1:]]
if "--tier" in args:
    tier = args[args.index("--tier") + 1]
    del args[args.index("--tier"):args.index("--tier") + 2]


def one(d):
    name = os.path.basename(d)
    meta = json.load(open(os.path.join(d, "meta.json")))
    prop = meta["property"]
    w = tempfile.mkdtemp(prefix="pmvseed-")
    os.rmdir(w)
    try:
        subprocess.run(["git", "-C", "/repo", "worktree", "add", "-q", w, "HEAD"], check=True, capture_output=True)
        a = subprocess.run(["git", "-C", w, "apply", os.path.join(d, "patch.diff")], capture_output=True, text=True)
        if a.returncode != 0:
            return name, prop, "PATCH-DOES-NOT-APPLY", ""
        env = dict(os.environ, PYTHONPATH=w + "/src")
        if name.startswith("C15"):
            env["C15_PREBUILT"] = "/repo/build/lib.linux-x86_64-cpython-312/pyModeS"
        t = subprocess.run(["/venv/bin/python", "-m", "pytest", "-q", "-x", "-p", "no:cacheprovider", "tests"], cwd=w, env=env, capture_output=True, text=True)
        dm = subprocess.run(["/venv/bin/python", os.path.join(d, "demo.py")], cwd=w, env=env, capture_output=True, text=True, timeout=600)
        r = subprocess.run(["/verif/check", prop, "--tier", tier], env=dict(os.environ, PMV_REPO=w, PMV_JOBS="6"), capture_output=True, text=True, cwd="/verif")
        keys = [l.split("key=")[1].split()[0] for l in r.stdout.splitlines() if l.startswith("VIOLATION") and "key=" in l]
        status = ("CAUGHT" if r.returncode == 1 else "MISSED(exit %d)" % r.returncode)
        return name, prop, "%s tests=%s demo_exit=%d" % (status, "pass" if t.returncode == 0 else "FAIL", dm.returncode), ",".join(keys[:3])
    finally:
        subprocess.run(["git", "-C", "/repo", "worktree", "remove", "--force", w], capture_output=True)


ds = sorted(glob.glob("/verif/seeded/*"))
if args:
    ds = [d for d in ds if any(a in d for a in args)]
bad = 0
with cf.ThreadPoolExecutor(max_workers=3) as ex:
    for name, prop, st, keys in ex.map(one, ds):
        if not st.startswith("CAUGHT"):
            bad += 1
        print("%-48s %-4s %-40s %s" % (name, prop, st, keys))
print("seeded changes: %d, not caught: %d" % (len(ds), bad))
sys.exit(1 if bad else 0)
