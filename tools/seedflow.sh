#!/bin/bash
# seedflow.sh <suffix e.g. C10b> <prop> <name> : verify, show, and (if caught) store + remove the worktree
S=$1; P=$2; N=$3
out=$(tools/verify_seed.sh /tmp/seed_$S $P 2>&1); echo "$out" | grep -vE "^warning|trailing whitespace|^\s+IC =|^\s+lockout" 
if echo "$out" | grep -q "^VIOLATION property=$P" && echo "$out" | grep -A1 "demo with change" | grep -q "exit 1" && echo "$out" | grep -A1 "demo without change" | grep -q "exit 0" && echo "$out" | grep -A1 "pytest with change" | grep -q "36 passed"; then
  keys=$(echo "$out" | grep "^VIOLATION" | sed 's/.*key=//' | tr '\n' ';')
  tools/store_seed.py /tmp/seed_$S $P $N yes "$P quick: $keys"
  git -C /repo worktree remove --force /tmp/seed_$S
else
  echo "!!! NOT AUTO-STORED (missed or demo problem) - look at it"
fi
