#!/venv/bin/python
"""trymut.py <props,comma> <relpath under src/pyModeS> <old> <new> [--tier quick]
Copy /repo/src to a scratch dir, apply one textual edit, run the checks with PMV_REPO pointing at the copy."""
import os, shutil, subprocess, sys, tempfile
props, rel, old, new = sys.argv[1:5]
tier = sys.argv[6] if len(sys.argv) > 6 else "quick"
d = tempfile.mkdtemp(prefix="pmvmut-")
try:
    shutil.copytree("/repo/src", d + "/src", ignore=shutil.ignore_patterns("*.so", "c_common.c", "__pycache__"))
    subprocess.run(["git", "init", "-q", d]); 
    p = os.path.join(d, "src/pyModeS", rel)
    s = open(p).read()
    assert s.count(old) >= 1, "pattern not found"
    open(p, "w").write(s.replace(old, new, 1))
    env = dict(os.environ, PMV_REPO=d)
    for prop in props.split(","):
        r = subprocess.run(["/verif/check", prop, "--tier", tier], env=env, capture_output=True, text=True, cwd="/verif")
        lines = [l[:220] for l in r.stdout.splitlines() if l.startswith(("VIOLATION", "INCONCLUSIVE", "HELD"))]
        print(prop, "exit", r.returncode, lines[:4])
finally:
    shutil.rmtree(d, ignore_errors=True)
