#!/venv/bin/python
"""Regenerate section 9 of DESIGN.md (between the SEEDED markers) from seeded/*/meta.json"""
import glob, json, os, re
rows = []
for d in sorted(glob.glob("/verif/seeded/*")):
    m = json.load(open(os.path.join(d, "meta.json")))
    name = os.path.basename(d)
    summ = (m.get("summary") or "").replace("\n", " ").replace("|", "/")
    if len(summ) > 230:
        summ = summ[:227] + "..."
    needs = (m.get("needs_to_manifest") or "").replace("\n", " ").replace("|", "/")
    if len(needs) > 200:
        needs = needs[:197] + "..."
    det = (m.get("detection_note") or "").replace("|", "/")
    rows.append("| `%s` | %s | %s | %s | %s |" % (name, m["property"], summ, needs, ("**NOT CAUGHT**: " if m.get("documented_miss") else "**not a violation (check stays silent)**: " if m.get("property_holds_on_changed_tree") else "caught: " if m.get("caught_by_checks_as_first_run") else "**missed at first**: ") + det))
txt = ["<!-- SEEDED-BEGIN -->",
       "| seeded change | property | what was changed | what it needs to manifest | detection |", "|---|---|---|---|---|"] + rows + ["<!-- SEEDED-END -->"]
p = "/verif/DESIGN.md"
s = open(p).read()
if "<!-- SEEDED-BEGIN -->" in s:
    s = re.sub(r"<!-- SEEDED-BEGIN -->.*<!-- SEEDED-END -->", lambda _: "\n".join(txt), s, flags=re.S)
else:
    raise SystemExit("markers missing")
open(p, "w").write(s)
print(len(rows), "rows")
