#!/venv/bin/python
"""Sensitivity self-test: apply each textual mutant of mutants/mutants.json to a scratch copy of /repo/src (outside
/repo and /verif), run the quick tier of the listed properties with PMV_REPO pointing at the copy, expect exit 1.
usage: tools/selftest_mutants.py [id-substring ...]"""
import concurrent.futures as cf
import json
import os
import shutil
import subprocess
import sys
import tempfile

HERE = os.path.dirname(os.path.dirname(os.path.abspath(__file__)))


def run(m):
    d = tempfile.mkdtemp(prefix="pmvmut-")
    try:
        shutil.copytree("/repo/src", d + "/src", ignore=shutil.ignore_patterns("*.so", "c_common.c", "__pycache__"))
        shutil.copytree("/repo/tests", d + "/tests", ignore=shutil.ignore_patterns("__pycache__"))
        p = os.path.join(d, "src/pyModeS", m["file"])
        s = open(p).read()
        if s.count(m["old"]) < 1:
            return m["id"], "PATTERN-NOT-FOUND", []
        open(p, "w").write(s.replace(m["old"], m["new"], 1))
        env = dict(os.environ, PMV_REPO=d, PMV_JOBS="4")
        res = []
        for prop in m["props"]:
            r = subprocess.run([os.path.join(HERE, "check"), prop, "--tier", "quick"], env=env, capture_output=True, text=True, cwd=HERE)
            keys = [l.split("key=")[1].split()[0] for l in r.stdout.splitlines() if l.startswith("VIOLATION") and "key=" in l]
            res.append((prop, r.returncode, keys[:3]))
        t = subprocess.run(["/venv/bin/python", "-m", "pytest", "-q", "-x", "-p", "no:cacheprovider", "tests"], cwd=d,
                           env=dict(os.environ, PYTHONPATH=d + "/src"), capture_output=True, text=True)
        tests_ok = t.returncode == 0
        return m["id"], "tests-pass" if tests_ok else "TESTS-FAIL", res
    finally:
        shutil.rmtree(d, ignore_errors=True)


def main():
    ms = json.load(open(os.path.join(HERE, "mutants", "mutants.json")))
    if len(sys.argv) > 1:
        ms = [m for m in ms if any(a in m["id"] for a in sys.argv[1:])]
    missed = 0
    with cf.ThreadPoolExecutor(max_workers=4) as ex:
        for mid, tests, res in ex.map(run, ms):
            first = res[0] if res else None
            ok = first is not None and first[1] == 1
            if not ok:
                missed += 1
            print("%-24s %-12s %s %s" % (mid, tests, "CAUGHT" if ok else "MISSED", res))
    print("mutants: %d, missed by the first listed property: %d" % (len(ms), missed))
    return 1 if missed else 0


if __name__ == "__main__":
    sys.exit(main())
