#!/bin/bash
# verify_seed.sh <worktree> <prop> [more props]: confirm a seeded change (tests pass, demo fails with / passes without), then run the checks on it
W=$1; shift
cd $W || exit 2
git diff --quiet -- src && { echo "no change applied in $W"; git apply seed_patch.diff || exit 2; }
echo "== pytest with change:"; PYTHONPATH=$W/src /venv/bin/python -m pytest -q -p no:cacheprovider tests 2>&1 | tail -1
echo "== demo with change:"; PYTHONPATH=$W/src /venv/bin/python seed_demo.py > /tmp/demo_with.txt 2>&1; echo "exit $? $(tail -1 /tmp/demo_with.txt | cut -c1-150)"
git apply -R seed_patch.diff
echo "== demo without change:"; PYTHONPATH=$W/src /venv/bin/python seed_demo.py > /tmp/demo_without.txt 2>&1; echo "exit $? $(tail -1 /tmp/demo_without.txt | cut -c1-150)"
git apply seed_patch.diff
for p in "$@"; do
  echo "== check $p quick on the changed tree:"; (cd /verif && PMV_REPO=$W ./check $p --tier quick | grep -E "^(VIOLATION|HELD|INCONCLUSIVE)" | cut -c1-220)
done
