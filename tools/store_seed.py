#!/venv/bin/python
"""store_seed.py <worktree> <property> <name> <caught-by-first-run yes|no> "<note>" : copy a confirmed seeded change into /verif/seeded/<name>/"""
import json, os, shutil, subprocess, sys
w, prop, name, caught, note = sys.argv[1:6]
d = os.path.join("/verif/seeded", name)
os.makedirs(d, exist_ok=True)
shutil.copy(os.path.join(w, "seed_patch.diff"), os.path.join(d, "patch.diff"))
shutil.copy(os.path.join(w, "seed_demo.py"), os.path.join(d, "demo.py"))
meta = json.load(open(os.path.join(w, "seed_meta.json")))
base = subprocess.run(["git", "-C", w, "rev-parse", "--short", "HEAD"], capture_output=True, text=True).stdout.strip()
meta.update({"property": prop, "base_commit_of_repo": base, "origin": "independent sub-agent given only the property text and a scratch worktree",
             "confirmed_by_me": "pytest 36 passed with the change; demo.py exits 1 with the change and 0 without (tools/verify_seed.sh)",
             "caught_by_checks_as_first_run": caught == "yes", "detection_note": note,
             "how_to_rerun": "git -C /repo worktree add /tmp/w HEAD && git -C /tmp/w apply /verif/seeded/%s/patch.diff && PMV_REPO=/tmp/w ./check %s --tier quick ; git -C /repo worktree remove --force /tmp/w" % (name, prop)})
json.dump(meta, open(os.path.join(d, "meta.json"), "w"), indent=1)
print("stored", d)
