"""Interference corpus: a sample of calls to the pure decoder functions taken from the workloads of ALL properties.

A function of one property may leave something behind (a module-level setting that an early return forgot to restore, a
cache shared between decoders) that only shows in a function of ANOTHER property.  The replay phase 1c therefore executes
a few calls of this corpus before each replayed call.  The corpus is built once per tree state by running the first
fraction of a second of every (stateless) property workload with call recording on, and cached under .cache/corpus/.
Entries are (module name, attribute name, args, kwargs): plain data, resolved again by name when loaded.
"""
from __future__ import annotations

import hashlib
import importlib
import os
import pickle
import sys
import time

from . import core, probe

MODULES = ["C01", "C02", "C03", "C04", "C05", "C06", "C07", "C08", "C09", "C10", "C11", "C12", "C13", "C14", "C18", "C20"]
VERSION = 3
SECONDS_PER_MODULE = 0.3
PER_FN = 12


def cache_path():
    key = hashlib.sha1(("%s|%s|%d" % (os.path.realpath(core.REPO), core.repo_state(), VERSION)).encode()).hexdigest()[:16]
    d = os.path.join(core.VERIF, ".cache", "corpus")
    os.makedirs(d, exist_ok=True)
    return os.path.join(d, key + ".pkl")


def _index():
    idx = {}
    for name, mod in list(sys.modules.items()):
        if mod is None or not name.startswith("pyModeS"):
            continue
        for k, v in list(getattr(mod, "__dict__", {}).items()):
            if callable(v) and id(v) not in idx:
                idx[id(v)] = (name, k)
    return idx


def build(path):
    core.bootstrap_repo()
    out = []
    old = probe.REC_PER_FN
    probe.REC_PER_FN = PER_FN
    try:
        for prop in MODULES:
            try:
                mod = importlib.import_module("pmv.props." + prop)
            except Exception:
                continue
            ctx = core.Ctx(prop, "quick", 0, 0, 16)
            probe.RECORD = {}
            probe._per_fn.clear()
            t0 = time.time()
            try:
                for name, case in mod.cases(ctx):
                    ctx._cur = (name, case)
                    try:
                        mod.MONITORS[name](ctx, case)
                    except Exception:
                        pass
                    if time.time() - t0 > SECONDS_PER_MODULE:
                        break
            except Exception:
                pass
            rec = probe.recorded()
            probe.RECORD = None
            idx = _index()
            for fn, a, k, _res in rec:
                where = idx.get(id(fn))
                if where:
                    out.append((where[0], where[1], a, k))
    finally:
        probe.REC_PER_FN = old
        probe.RECORD = None
    tmp = path + ".tmp%d" % os.getpid()
    with open(tmp, "wb") as f:
        pickle.dump(out, f)
    os.replace(tmp, path)
    return len(out)


def load(path, wait_s=90):
    t0 = time.time()
    while not os.path.exists(path) and time.time() - t0 < wait_s:
        time.sleep(0.2)
    if not os.path.exists(path):
        return []
    try:
        raw = pickle.load(open(path, "rb"))
    except Exception:
        return []
    out = []
    for modname, attr, a, k in raw:
        try:
            fn = getattr(importlib.import_module(modname), attr)
        except Exception:
            continue
        out.append((fn, a, k))
    return out
