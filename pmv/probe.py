"""Probe layer: call wrappers, rebinding of every alias of a function, contracts."""
from __future__ import annotations

import sys


RECORD = None            # {id(fn): list} of (fn, args, kwargs, repr(result)) while a worker collects calls for the replay phases
REC_TOTAL = 6000
REC_PER_FN = 100
_per_fn = {}
_NOT_PURE = {"tell"}     # prints; everything else that is recorded is a plain module-level function of the decoder packages
_PURE_MODULES = ("pyModeS.decoder", "pyModeS.py_common", "pyModeS.extra.aero", "pyModeS.common")


def _recordable(fn):
    import inspect
    f = inspect.unwrap(fn) if hasattr(fn, "__wrapped__") else fn
    if not inspect.isfunction(f):
        return False
    mod = getattr(f, "__module__", "") or ""
    return mod.startswith(_PURE_MODULES) and f.__name__ not in _NOT_PURE


def call(fn, *a, **kw):
    """('ok', value) or ('exc', type_name, message) - never raises"""
    recording = RECORD is not None and _recordable(fn)
    if recording and any(getattr(x, "size", 0) > 100000 for x in a):
        recording = False      # very long arrays are not replayed (copying and re-running them dominates the run)
    if recording:
        import copy
        try:
            a0, k0 = copy.deepcopy(a), copy.deepcopy(kw)   # before the call: the callee may modify its arguments
        except Exception:
            recording = False
    try:
        r = ("ok", fn(*a, **kw))
    except BaseException as e:  # noqa
        if isinstance(e, (KeyboardInterrupt, SystemExit, MemoryError)) or type(e).__name__ == "CaseTimeout":
            raise
        r = ("exc", type(e).__name__, str(e)[:200])
    if recording:
        # reservoir sample per (function object, kind of outcome) over the WHOLE run: ordinary values, None results and
        # each exception type have their own quota, so that rare early-return / error paths are represented too
        kind = r[1] if r[0] == "exc" else ("none" if r[1] is None else "value")
        key = (id(fn), kind)
        c = _per_fn.get(key, 0) + 1
        _per_fn[key] = c
        cap = REC_PER_FN if kind == "value" else max(8, REC_PER_FN // 4)
        lst = RECORD.setdefault(key, [])
        if c <= cap:
            lst.append((fn, a0, k0, repr(r)))
        elif _rr.random() < cap / c:
            lst[_rr.randrange(len(lst))] = (fn, a0, k0, repr(r))
    return r


import random as _random
_rr = _random.Random(12345)


def recorded():
    out = []
    for lst in (RECORD or {}).values():
        out.extend(lst)
    return out


def rebind(orig, new, prefix="pyModeS"):
    """Replace every module attribute that *is* `orig` by `new` (from m import f aliases)."""
    n = 0
    for name, mod in list(sys.modules.items()):
        if mod is None or not name.startswith(prefix):
            continue
        d = getattr(mod, "__dict__", None)
        if not d:
            continue
        for k, v in list(d.items()):
            if v is orig:
                d[k] = new
                n += 1
    return n


class Counter:
    def __init__(self):
        self.n = 0
        self.bad = []
