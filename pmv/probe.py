"""Probe layer: call wrappers, rebinding of every alias of a function, contracts."""
from __future__ import annotations

import sys


def call(fn, *a, **kw):
    """('ok', value) or ('exc', type_name, message) - never raises"""
    try:
        return ("ok", fn(*a, **kw))
    except BaseException as e:  # noqa
        if isinstance(e, (KeyboardInterrupt, SystemExit, MemoryError)) or type(e).__name__ == "CaseTimeout":
            raise
        return ("exc", type(e).__name__, str(e)[:200])


def rebind(orig, new, prefix="pyModeS"):
    """Replace every module attribute that *is* `orig` by `new` (from m import f aliases)."""
    n = 0
    for name, mod in list(sys.modules.items()):
        if mod is None or not name.startswith(prefix):
            continue
        d = getattr(mod, "__dict__", None)
        if not d:
            continue
        for k, v in list(d.items()):
            if v is orig:
                d[k] = new
                n += 1
    return n


class Counter:
    def __init__(self):
        self.n = 0
        self.bad = []
