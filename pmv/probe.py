"""Probe layer: call wrappers, rebinding of every alias of a function, contracts."""
from __future__ import annotations

import sys


RECORD = None            # {id(fn): list} of (fn, args, kwargs, repr(result)) while a worker collects calls for the replay phases
REC_TOTAL = 6000
REC_PER_FN = 100
_per_fn = {}
_NOT_PURE = {"tell"}     # prints; everything else that is recorded is a plain module-level function of the decoder packages
_PURE_MODULES = ("pyModeS.decoder", "pyModeS.py_common", "pyModeS.extra.aero", "pyModeS.common")


def _recordable(fn):
    import inspect
    f = inspect.unwrap(fn) if hasattr(fn, "__wrapped__") else fn
    if not inspect.isfunction(f):
        return False
    mod = getattr(f, "__module__", "") or ""
    return mod.startswith(_PURE_MODULES) and f.__name__ not in _NOT_PURE


def call(fn, *a, **kw):
    """('ok', value) or ('exc', type_name, message) - never raises"""
    slot = None
    if RECORD is not None and _recordable(fn):
        # reservoir sample of REC_PER_FN calls per function object over the WHOLE run (not just the first cases)
        key = id(fn)
        c = _per_fn.get(key, 0) + 1
        _per_fn[key] = c
        if c <= REC_PER_FN:
            slot = -1
        elif _rr.random() < REC_PER_FN / c:
            slot = _rr.randrange(REC_PER_FN)
        if slot is not None:
            import copy
            try:
                a0, k0 = copy.deepcopy(a), copy.deepcopy(kw)
            except Exception:
                slot = None
    try:
        r = ("ok", fn(*a, **kw))
    except BaseException as e:  # noqa
        if isinstance(e, (KeyboardInterrupt, SystemExit, MemoryError)) or type(e).__name__ == "CaseTimeout":
            raise
        r = ("exc", type(e).__name__, str(e)[:200])
    if slot is not None:
        lst = RECORD.setdefault(id(fn), [])
        item = (fn, a0, k0, repr(r))
        if slot == -1 or slot >= len(lst):
            lst.append(item)
        else:
            lst[slot] = item
    return r


import random as _random
_rr = _random.Random(12345)


def recorded():
    out = []
    for lst in (RECORD or {}).values():
        out.extend(lst)
    return out


def rebind(orig, new, prefix="pyModeS"):
    """Replace every module attribute that *is* `orig` by `new` (from m import f aliases)."""
    n = 0
    for name, mod in list(sys.modules.items()):
        if mod is None or not name.startswith(prefix):
            continue
        d = getattr(mod, "__dict__", None)
        if not d:
            continue
        for k, v in list(d.items()):
            if v is orig:
                d[k] = new
                n += 1
    return n


class Counter:
    def __init__(self):
        self.n = 0
        self.bad = []
