"""C20 - standard-atmosphere and airspeed conversions are consistent."""
from __future__ import annotations

import math

from ..probe import call
from ..ref import isa

LEVEL = "exploration"
TECHNIQUE = 'runtime monitoring: analytic ISA / haversine reference, round-trip, ordering and monotonicity trace monitors, scalar-vs-array relation'
LEVEL_TEXT = 'Exploration on grids plus random points; tolerances stated per relation.'
LEVEL_RULE = (
    "pyModeS.extra.aero functions called with scalar and ndarray arguments on a (speed, altitude) grid over [0.5,450] m/s x "
    "[-500,20000] m plus random points, Mach in (0,1.3]; oracles: analytic ISA within 0.1 % and continuity at 11 km, round "
    "trips of the four conversion pairs within 1e-8 relative, strict monotonicity in speed on sorted grids, CAS=EAS=TAS at "
    "H=0, TAS>=EAS and CAS>=EAS for H>0, distance symmetric / finite / within max(0.5 m,1e-9 d) of haversine on uniform, "
    "identical, antipodal, polar and antimeridian pairs, bearing in [0,360), array == element-wise scalar. "
    "Distinct = distinct argument tuples."
)
EXHAUSTIVE_SUBDOMAINS = ["atmos on the 10 m altitude grid over [-500, 20000] m"]
ASSUMPTIONS = ["'tabulated ISA' = analytic hydrostatic ISA with g0, R, lapse rate -6.5 K/km, isothermal above 11 km",
               "round-trip tolerance 1e-8 relative (double precision through two pow() calls)"]
REQUIRED = ["arrays_of_more_than_4M_rows", "same_shape_tables_converted_by_4_threads", "array_with_a_missing_row", "atmos_grid", "tropopause", "roundtrip", "monotone", "sea_level", "ordering", "distance_uniform",
            "distance_antipodal", "distance_identical", "distance_cardinal", "distance_with_H", "recall_after_in_place_edit", "narrow_integer_dtypes", "non_contiguous_layouts", "bearing", "array_equals_scalar", "types", "altitude_table_with_all_rows_equal"]


def rel(a, b):
    return abs(a - b) / max(abs(a), abs(b), 1e-300)


def m_atmos(ctx, case):
    import numpy as np
    from pyModeS.extra import aero
    Hs = case["H"]
    arr = call(aero.atmos, np.array(Hs, dtype=float))
    ctx.ev()
    for k, H in enumerate(Hs):
        r = call(aero.atmos, H)
        ctx.ev()
        if r[0] != "ok":
            ctx.violation("aero-raises", fn="atmos", H=H, observed=r[1:])
            continue
        p, rho, T = (float(x) for x in r[1])
        ep, er, eT = isa.atmos(H)
        worst = max(rel(p, ep), rel(rho, er), rel(T, eT))
        ctx.note_max("max_isa_rel_err", worst)
        if not worst <= 1e-3:
            ctx.violation("isa-off-by-more-than-0.1-percent", H=H, observed=[p, rho, T], expected=[ep, er, eT])
        for nm, val in (("pressure", p), ("density", rho), ("temperature", T)):
            r2 = call(getattr(aero, nm), H)
            ctx.ev()
            if r2[0] != "ok" or float(r2[1]) != val:
                ctx.violation("isa-accessor-differs", fn=nm, H=H, observed=r2[1:], atmos=val)
        if arr[0] == "ok":
            pa, ra, Ta = (float(x[k]) for x in arr[1])
            if max(rel(pa, p), rel(ra, rho), rel(Ta, T)) > 1e-8:
                ctx.violation("array-differs-from-scalar", fn="atmos", H=H, array=[pa, ra, Ta], scalar=[p, rho, T])
            ctx.hit("array_equals_scalar")
        ctx.nontrivial(("atm", H))
    ctx.hit("atmos_grid")
    # a table with a MISSING row (NaN where a decoder returned None): the other rows are what they are without it - an
    # array-wide reduction in a gate (np.max / np.any / np.all) must not let one row decide for the others
    if arr[0] == "ok" and len(Hs) >= 2:
        for pos in (0, len(Hs) // 2, len(Hs) - 1):
            Hn = np.array(Hs, dtype=float)
            Hn[pos] = np.nan
            with np.errstate(all="ignore"):
                rn = call(aero.atmos, Hn)
            ctx.ev()
            ok_ = rn[0] == "ok"
            if ok_:
                for x_full, x_nan in zip(arr[1], rn[1]):
                    keep = np.arange(len(Hs)) != pos
                    ok_ = ok_ and np.shape(x_nan) == (len(Hs),) and np.allclose(np.asarray(x_nan)[keep], np.asarray(x_full)[keep], rtol=1e-12, atol=0)
            if not ok_:
                ctx.violation("rows-next-to-a-missing-row-change", fn="atmos", H=[h_ for h_ in Hs][:6], nan_at=pos, observed=repr(rn[1:])[:160])
                break
        ctx.hit("array_with_a_missing_row")
    # vsound
    for H in Hs[:3]:
        r = call(aero.vsound, H)
        ctx.ev()
        e = math.sqrt(1.4 * isa.R * isa.atmos(H)[2])
        if r[0] != "ok" or rel(float(r[1]), e) > 1e-3:
            ctx.violation("isa-off-by-more-than-0.1-percent", fn="vsound", H=H, observed=r[1:], expected=e)


def m_tropopause(ctx, case):
    from pyModeS.extra import aero
    for eps in (1e-6, 1e-3, 1e-9):
        a = aero.atmos(11000.0 - eps)
        b = aero.atmos(11000.0 + eps)
        c = aero.atmos(11000.0)
        ctx.ev(3)
        for x, y, z in zip(a, b, c):
            jump = max(rel(float(x), float(y)), rel(float(x), float(z)))
            ctx.note_max("tropopause_rel_jump", jump)
            if jump > 1e-6 + 2e-4 * eps:
                ctx.violation("isa-discontinuous-at-tropopause", eps=eps, below=[float(v) for v in a], above=[float(v) for v in b])
    ctx.hit("tropopause")
    ctx.nontrivial(("trop",))


PAIRS = [("tas2cas", "cas2tas"), ("tas2eas", "eas2tas"), ("tas2mach", "mach2tas"), ("cas2mach", "mach2cas")]


def m_speed(ctx, case):
    import numpy as np
    from pyModeS.extra import aero
    H = case["H"]
    vs = case["v"]  # sorted ascending speeds m/s
    va = np.array(vs, dtype=float)
    for f, g in PAIRS:
        F, G = getattr(aero, f), getattr(aero, g)
        prev = None
        fa = call(F, va, H)
        ctx.ev()
        for k, v in enumerate(vs):
            r = call(F, v, H)
            ctx.ev()
            if r[0] != "ok" or not math.isfinite(float(r[1])):
                ctx.violation("aero-raises-or-nonfinite", fn=f, v=v, H=H, observed=repr(r[1:])[:80])
                prev = None
                continue
            y = float(r[1])
            back = call(G, y, H)
            ctx.ev()
            if back[0] != "ok" or not rel(float(back[1]), v) <= 1e-8:
                ctx.violation("conversion-pair-not-inverse", pair=[f, g], v=v, H=H, forward=y, back=repr(back[1:])[:60])
            else:
                ctx.note_max("max_roundtrip_rel", rel(float(back[1]), v))
            if prev is not None and not y > prev[1]:
                ctx.violation("conversion-not-strictly-increasing", fn=f, H=H, v0=prev[0], y0=prev[1], v1=v, y1=y)
            prev = (v, y)
            if fa[0] == "ok" and rel(float(fa[1][k]), y) > 1e-8:
                ctx.violation("array-differs-from-scalar", fn=f, v=v, H=H, array=float(fa[1][k]), scalar=y)
        ctx.hit("roundtrip")
        ctx.hit("monotone")
        ctx.hit("array_equals_scalar")
        # inverse direction monotone + roundtrip (for mach pairs the argument is a Mach number)
        xs = case["m"] if g.startswith("mach") else vs
        prev = None
        for x in xs:
            r = call(G, x, H)
            ctx.ev()
            if r[0] != "ok" or not math.isfinite(float(r[1])):
                ctx.violation("aero-raises-or-nonfinite", fn=g, v=x, H=H, observed=repr(r[1:])[:80])
                prev = None
                continue
            y = float(r[1])
            back = call(F, y, H)
            ctx.ev()
            if back[0] != "ok" or not rel(float(back[1]), x) <= 1e-8:
                ctx.violation("conversion-pair-not-inverse", pair=[g, f], v=x, H=H, forward=y, back=repr(back[1:])[:60])
            if prev is not None and not y > prev[1]:
                ctx.violation("conversion-not-strictly-increasing", fn=g, H=H, v0=prev[0], y0=prev[1], v1=x, y1=y)
            prev = (x, y)
    # ordering relations
    for v in vs:
        cas = float(aero.tas2cas(v, H))
        eas = float(aero.tas2eas(v, H))
        ctx.ev(2)
        if H == 0:
            if rel(cas, v) > 1e-6 or rel(eas, v) > 1e-6:
                ctx.violation("sea-level-speeds-differ", tas=v, cas=cas, eas=eas)
            ctx.hit("sea_level")
        elif H > 0:
            if not (v >= eas * (1 - 1e-12) and cas >= eas * (1 - 1e-9)):
                ctx.violation("airspeed-ordering-violated", H=H, tas=v, cas=cas, eas=eas)
            ctx.hit("ordering")
        ctx.nontrivial(("spd", v, H))
    if ctx.rng.random() < 0.01:
        ctx.sample({"H": H, "tas": vs[len(vs) // 2], "cas": float(aero.tas2cas(vs[len(vs) // 2], H))})


def m_geo(ctx, case):
    import numpy as np
    from pyModeS.extra import aero
    P = case["pairs"]
    kind = case["kind"]
    arr = np.array(P, dtype=float)
    da = call(aero.distance, arr[:, 0], arr[:, 1], arr[:, 2], arr[:, 3])
    ba = call(aero.bearing, arr[:, 0], arr[:, 1], arr[:, 2], arr[:, 3])
    ctx.ev(2)
    for k, (la1, lo1, la2, lo2) in enumerate(P):
        r = call(aero.distance, la1, lo1, la2, lo2)
        r2 = call(aero.distance, la2, lo2, la1, lo1)
        ctx.ev(2)
        if r[0] != "ok" or r2[0] != "ok":
            ctx.violation("aero-raises", fn="distance", pair=P[k], observed=[r[1:], r2[1:]])
            continue
        d, d2 = float(r[1]), float(r2[1])
        e = isa.haversine(la1, lo1, la2, lo2)
        if not (math.isfinite(d) and math.isfinite(d2)):
            ctx.violation("distance-not-finite", pair=P[k], observed=[d, d2], expected=e, kind=kind)
        else:
            if abs(d - d2) > 1e-6:
                ctx.violation("distance-not-symmetric", pair=P[k], observed=[d, d2])
            tol = max(0.5, 1e-9 * e)
            if abs(d - e) > tol:
                ctx.violation("distance-differs-from-haversine", pair=P[k], observed=d, expected=e, kind=kind)
            ctx.note_max("max_distance_err_m", abs(d - e))
        if da[0] == "ok":
            x = float(da[1][k])
            if not ((math.isnan(x) and math.isnan(d)) or abs(x - d) <= 1e-6):
                ctx.violation("array-differs-from-scalar", fn="distance", pair=P[k], array=x, scalar=d)
        b = call(aero.bearing, la1, lo1, la2, lo2)
        ctx.ev()
        if b[0] != "ok" or not (0.0 <= float(b[1]) < 360.0):
            ctx.violation("bearing-out-of-range", pair=P[k], observed=repr(b[1:])[:60])
        elif ba[0] == "ok" and abs(float(ba[1][k]) - float(b[1])) > 1e-9:
            ctx.violation("array-differs-from-scalar", fn="bearing", pair=P[k], array=float(ba[1][k]), scalar=float(b[1]))
        if k % 5 == 0:
            # optional flight level argument H: same arc on a sphere of radius r_earth + H
            Hh = (0, 1000.0, 11000.0, 12500, -300.0)[(k // 5) % 5]
            rh = call(aero.distance, la1, lo1, la2, lo2, Hh)
            rk = call(aero.distance, la1, lo1, la2, lo2, H=Hh)
            ctx.ev(2)
            eh = isa.haversine(la1, lo1, la2, lo2, r=isa.REARTH + Hh)
            ctx.hit("distance_with_H")
            if rh != rk or rh[0] != "ok" or not math.isfinite(float(rh[1])) or abs(float(rh[1]) - eh) > max(0.5, 1e-9 * eh):
                ctx.violation("distance-with-H-differs-from-haversine", pair=P[k], H=Hh, observed=repr(rh[1:])[:60], expected=eh)
        ctx.nontrivial(("geo", la1, lo1, la2, lo2))
    # whole-degree coordinates held in narrow integer arrays, longitudes in the 0..360 convention in UNSIGNED ones (a gridded
    # product): a difference taken on the raw inputs (lon1 - lon2) wraps modulo 2**N without any warning
    Pi = [(int(round(a)), int(round(b)) % 360, int(round(c)), int(round(d)) % 360) for (a, b, c, d) in P]
    for dt_lat, dt_lon in (("int8", "uint16"), ("int16", "uint16"), ("int32", "uint32"), ("int64", "uint64"), ("int16", "int16")):
        A = [np.array([q[j] for q in Pi], dtype=(dt_lat if j % 2 == 0 else dt_lon)) for j in range(4)]
        keep = [a_.copy() for a_ in A]
        for order in ((0, 1, 2, 3), (2, 3, 0, 1)):
            rd = call(aero.distance, *[A[j] for j in order])
            # (bearing is not asked with 8-bit arrays: numpy then computes in float16, whose underflow and 3-digit precision are
            #  numpy's, not the library's)
            rb = call(aero.bearing, *[A[j] for j in order]) if dt_lat != "int8" else ("ok", np.zeros(len(Pi)))
            ctx.ev(2)
            if rd[0] != "ok" or np.shape(rd[1]) != (len(Pi),) or rb[0] != "ok" or np.shape(rb[1]) != (len(Pi),):
                ctx.violation("integer-array-call-fails-or-wrong-shape", fn="distance/bearing", dtypes=[dt_lat, dt_lon], observed=[repr(rd[1:])[:80], repr(rb[1:])[:80]])
                break
            for k, q in enumerate(Pi):
                qq = [q[j] for j in order]
                e = isa.haversine(*[float(v) for v in qq])
                x = float(rd[1][k])
                # the library may compute in the precision of the input type: 16-bit inputs give float32-grade results
                if not (math.isfinite(x) and abs(x - e) <= max(2000.0, 2e-3 * e)):
                    ctx.violation("distance-differs-from-haversine-for-integer-arrays", pair=qq, dtypes=[dt_lat, dt_lon], observed=x, expected=e)
                bs = call(aero.bearing, *[float(v) for v in qq])
                y = float(rb[1][k])
                if dt_lat != "int8" and bs[0] == "ok" and math.isfinite(float(bs[1])) and e > 10000.0 and abs(abs(q[0]) - 90) > 1 and abs(abs(q[2]) - 90) > 1 \
                        and isa.haversine(qq[0], qq[1], -qq[2], qq[3] + 180.0) > 10000.0:
                    dff = abs(y - float(bs[1])) % 360.0
                    if not (0.0 <= y < 360.0 or y == 360.0) or min(dff, 360.0 - dff) > 0.5:
                        ctx.violation("bearing-differs-for-integer-arrays", pair=qq, dtypes=[dt_lat, dt_lon], observed=y, with_floats=float(bs[1]))
        if any(not np.array_equal(a_, k_) for a_, k_ in zip(A, keep)):
            ctx.violation("caller-array-modified", fn="distance/bearing", dtypes=[dt_lat, dt_lon])
        ctx.hit("geo_whole_degree_integer_arrays")
    ctx.hit("distance_" + kind, len(P))
    ctx.hit("bearing")
    ctx.hit("array_equals_scalar")
    if ctx.rng.random() < 0.02:
        ctx.sample({"pair": P[0], "distance_m": float(aero.distance(*P[0])), "haversine_m": isa.haversine(*P[0])})


def m_types(ctx, case):
    """argument type / shape independence: arrays of mixed altitudes, integer arguments, caller's arrays left untouched"""
    import numpy as np
    from pyModeS.extra import aero
    H = case["H"]
    V = case["v"]
    Ha = np.array(H, dtype=float)
    Va = np.array(V, dtype=float)
    fns = ["tas2cas", "cas2tas", "tas2eas", "eas2tas", "tas2mach", "mach2tas", "mach2cas", "cas2mach"]
    for f in fns:
        F = getattr(aero, f)
        x = Va if "mach2" not in f else Va / 400.0
        xs = [float(t) for t in x]
        Hc, xc = Ha.copy(), x.copy()
        ra = call(F, x, Ha)
        ctx.ev()
        if not (np.array_equal(Ha, Hc) and np.array_equal(x, xc)):
            ctx.violation("caller-array-modified", fn=f)
        if ra[0] == "ok" and isinstance(ra[1], np.ndarray) and len(H) > 1:
            # the caller re-uses its buffers: overwrite the altitude (and speed) arrays IN PLACE and edit the earlier result in
            # place, then call again with the same objects - the answer has to be the one for the new contents
            first = ra[1].copy()
            try:
                ra[1] *= 0.5
            except Exception:
                pass
            Hb, xb = Ha.copy(), x.copy()
            Hb[:] = Hb[::-1].copy()
            rfirst = call(F, xb, Hb)
            Hb[:] = Ha
            xb[:] = x
            rsecond = call(F, xb, Hb)
            ctx.ev(2)
            ctx.hit("recall_after_in_place_edit")
            if rsecond[0] != "ok" or not np.allclose(rsecond[1], first, rtol=1e-10, atol=0, equal_nan=True):
                ctx.violation("stale-or-aliased-result-after-in-place-edit", fn=f, first=repr(first)[:120], again=repr(rsecond[1:])[:120])
            ra = ("ok", first)
        if ra[0] != "ok" or np.shape(ra[1]) != np.shape(x):
            ctx.violation("array-call-fails-or-wrong-shape", fn=f, observed=repr(ra[1:])[:120])
            continue
        for k in range(len(H)):
            rs = call(F, xs[k], H[k])
            ctx.ev()
            if rs[0] != "ok" or not rel(float(ra[1][k]), float(rs[1])) <= 1e-8:
                ctx.violation("array-differs-from-scalar", fn=f, v=xs[k], H=H[k], array=float(ra[1][k]), scalar=repr(rs[1:])[:60])
            # integer arguments must give the value of the equal float arguments
            if float(xs[k]).is_integer() and float(H[k]).is_integer():
                ri = call(F, int(xs[k]), int(H[k]))
                ctx.ev()
                if ri[0] != "ok" or not rel(float(ri[1]), float(rs[1])) <= 1e-8:
                    ctx.violation("integer-arguments-differ-from-float", fn=f, v=xs[k], H=H[k], int_result=repr(ri[1:])[:60], float_result=float(rs[1]))
        # narrow integer dtypes (what a down-cast data frame column holds): same values, same answers
        if "mach2" not in f and all(float(t).is_integer() for t in xs) and all(float(h).is_integer() for h in H):
            for dt_v, dt_h in (("int16", "int32"), ("int32", "int16"), ("uint16", "int32"), ("int64", "int64"), ("uint16", "uint16"),
                               ("int32", "uint32"), ("uint32", "uint64")):
                if dt_h == "int16" and max(abs(h) for h in H) > 32000:
                    continue
                if dt_h.startswith("uint") and min(H) < 0:
                    continue
                ri = call(F, np.array(xs, dtype=dt_v), np.array(H, dtype=dt_h))
                ctx.ev()
                ctx.hit("narrow_integer_dtypes")
                if ri[0] != "ok" or np.shape(ri[1]) != np.shape(x) or not np.allclose(ri[1], ra[1], rtol=1e-8, atol=0, equal_nan=False):
                    ctx.violation("integer-arguments-differ-from-float", fn=f, dtypes=[dt_v, dt_h], v=xs[:6], H=H[:6],
                                  int_result=repr(ri[1:])[:120], float_result=repr(ra[1])[:120])
        # broadcasting: array speeds at one altitude, one speed at an array of altitudes, 2-D arrays
        h0, x0 = float(H[0]), xs[0]
        rb = call(F, x, h0)
        rc = call(F, x0, Ha)
        ctx.ev(2)
        for k in range(len(H)):
            e1, e2 = call(F, xs[k], h0), call(F, x0, H[k])
            ok1 = rb[0] == "ok" and np.shape(rb[1]) == np.shape(x) and e1[0] == "ok" and rel(float(rb[1][k]), float(e1[1])) <= 1e-8
            ok2 = rc[0] == "ok" and np.shape(rc[1]) == np.shape(Ha) and e2[0] == "ok" and rel(float(rc[1][k]), float(e2[1])) <= 1e-8
            if not (ok1 and ok2):
                ctx.violation("broadcast-differs-from-scalar", fn=f, k=k, v=xs[k], H=H[k], array_v=repr(rb[1:])[:80], array_H=repr(rc[1:])[:80])
                break
        if len(H) % 2 == 0:
            r2 = call(F, x.reshape(2, -1), Ha.reshape(2, -1))
            ctx.ev()
            if r2[0] != "ok" or np.shape(r2[1]) != (2, len(H) // 2) or not np.allclose(np.ravel(r2[1]), ra[1], rtol=1e-8, atol=0, equal_nan=True):
                ctx.violation("2d-array-differs-from-1d", fn=f, observed=repr(r2[1:])[:120])
            ctx.hit("two_dimensional")
            # the same table in column-major / transposed layout and as a strided view (not C-contiguous)
            xf, hf = np.asfortranarray(x.reshape(2, -1)), np.asfortranarray(Ha.reshape(2, -1))
            rf = call(F, xf, hf)
            xt, ht = x.reshape(-1, 2).T, Ha.reshape(-1, 2).T
            rt = call(F, xt, ht)
            et = call(F, np.ascontiguousarray(xt), np.ascontiguousarray(ht))
            xs2 = np.repeat(x, 2)[::2]
            hs2 = np.repeat(Ha, 2)[::2]
            rs2 = call(F, xs2, hs2)
            ctx.ev(4)
            okf = rf[0] == "ok" and np.shape(rf[1]) == (2, len(H) // 2) and np.allclose(np.asarray(rf[1]).reshape(2, -1), np.asarray(r2[1]), rtol=1e-8, atol=0) if r2[0] == "ok" else True
            okt = rt[0] == "ok" and et[0] == "ok" and np.shape(rt[1]) == np.shape(et[1]) and np.allclose(rt[1], et[1], rtol=1e-8, atol=0)
            oks = rs2[0] == "ok" and np.allclose(rs2[1], ra[1], rtol=1e-8, atol=0)
            if not (okf and okt and oks):
                ctx.violation("non-contiguous-array-differs-from-contiguous", fn=f, fortran=bool(okf), transposed=bool(okt), strided=bool(oks),
                              observed=repr((rf[1:], rt[1:]))[:200])
            ctx.hit("non_contiguous_layouts")
        ctx.hit("broadcast")
    # atmosphere with mixed-altitude and integer arrays
    for arr in (Ha, np.array([int(h) for h in H])):
        r = call(aero.atmos, arr)
        ctx.ev()
        if r[0] != "ok":
            ctx.violation("array-call-fails-or-wrong-shape", fn="atmos", observed=repr(r[1:])[:120])
            continue
        for k in range(len(H)):
            e = isa.atmos(float(arr[k]))
            got = [float(r[1][j][k]) for j in range(3)]
            if max(rel(g, x_) for g, x_ in zip(got, e)) > 1e-3:
                ctx.violation("isa-off-by-more-than-0.1-percent", H=float(arr[k]), observed=got, expected=list(e), via="array/int argument")
    ctx.hit("types")
    ctx.nontrivial(("types", tuple(H), tuple(V)))


def m_big(ctx, case):
    """array SIZE is not the functions' business: a trajectory table of millions of rows gets, row by row, what a slice of it
    gets (a block-wise evaluation that drops the remainder, a work buffer of fixed size)"""
    import numpy as np
    from pyModeS.extra import aero
    n = case["n"]
    g = np.random.default_rng(case["gseed"])
    H = g.uniform(-500.0, 20000.0, n)
    V = g.uniform(0.5, 450.0, n)
    fns = [("tas2cas", V, H), ("cas2tas", V, H), ("tas2eas", V, H), ("eas2tas", V, H), ("tas2mach", V, H), ("mach2tas", V / 400.0, H),
           ("mach2cas", V / 400.0, H), ("cas2mach", V, H), ("vsound", H, None), ("distance", H / 300.0, V / 3.0)]
    fname, x, y = fns[case["f"] % len(fns)]
    F = getattr(aero, fname)
    if fname == "distance":
        full = call(F, x, y, x[::-1].copy(), y[::-1].copy())
    else:
        full = call(F, x) if y is None else call(F, x, y)
    ctx.ev()
    if full[0] != "ok" or np.shape(full[1]) != (n,):
        ctx.violation("array-call-fails-or-wrong-shape", fn=fname, size=n, observed=repr(full[1:])[:120])
        return
    idx = sorted(set([0, 1, n // 2, n - 2, n - 1] + [int(v) for v in g.integers(0, n, 40)] + [n - 1 - int(v) for v in g.integers(0, min(n, 5000), 20)]))
    for j in idx:
        lo = max(0, j - 3)
        if fname == "distance":
            xr, yr = x[::-1], y[::-1]
            part = call(F, x[lo:j + 1].copy(), y[lo:j + 1].copy(), xr[lo:j + 1].copy(), yr[lo:j + 1].copy())
        else:
            part = call(F, x[lo:j + 1].copy()) if y is None else call(F, x[lo:j + 1].copy(), y[lo:j + 1].copy())
        ctx.ev()
        if part[0] != "ok" or not np.allclose(np.asarray(part[1])[-1], full[1][j], rtol=1e-9, atol=1e-9, equal_nan=True):
            ctx.violation("row-of-a-large-array-differs-from-the-same-row-alone", fn=fname, size=n, row=j, in_large_array=float(full[1][j]),
                          alone=repr(part[1:])[:80])
            return
    ctx.hit("arrays_of_more_than_4M_rows" if n > (1 << 22) else "arrays_of_about_1M_rows" if n > 900000 else "arrays_of_about_64k_rows")
    ctx.nontrivial(("big", fname, n))


def m_threads(ctx, case):
    """four threads converting tables of the SAME shape and dtype at the same time (a work array kept at module level is shared
    by all of them): every thread gets the answer it gets alone"""
    import sys
    import threading
    import numpy as np
    from pyModeS.extra import aero
    g = np.random.default_rng(case["gseed"])
    n = case["n"]
    jobs = []
    for t in range(4):
        H = g.uniform(-500.0, 20000.0, n)
        V = g.uniform(0.5, 450.0, n)
        alone = {}
        for f in ("tas2cas", "cas2tas", "mach2cas", "cas2mach", "tas2eas", "eas2tas"):
            x = V / 400.0 if f.startswith("mach2") else V
            r = call(getattr(aero, f), x.copy(), H.copy())
            if r[0] == "ok":
                alone[f] = (x, np.array(r[1], copy=True))
        jobs.append((H, alone))
    bad = []

    def work(t):
        H, alone = jobs[t]
        for rnd in range(case["rounds"]):
            for f, (x, want) in alone.items():
                if bad:
                    return
                got = getattr(aero, f)(x.copy(), H.copy())
                if not np.allclose(got, want, rtol=1e-12, atol=0, equal_nan=True):
                    j = int(np.argmax(np.abs(np.asarray(got) - want)))
                    bad.append((f, t, rnd, float(x[j]), float(H[j]), float(np.asarray(got)[j]), float(want[j])))
                    return
    old = sys.getswitchinterval()
    sys.setswitchinterval(1e-6)
    try:
        ths = [threading.Thread(target=work, args=(t,), daemon=True) for t in range(4)]
        for th in ths:
            th.start()
        for th in ths:
            th.join(timeout=300)
    finally:
        sys.setswitchinterval(old)
    ctx.ev(4 * case["rounds"] * 6)
    for f, t, rnd, xv, hv, gv, wv in bad[:2]:
        ctx.violation("array-result-differs-under-concurrent-calls", fn=f, thread=t, round=rnd, v=xv, H=hv, concurrent=gv, alone=wv, rows=n)
    ctx.hit("same_shape_tables_converted_by_4_threads")
    ctx.nontrivial(("thr", case["gseed"]))


MONITORS = {"threads": m_threads, "atmos": m_atmos, "tropopause": m_tropopause, "speed": m_speed, "geo": m_geo, "types": m_types, "big": m_big}


def cases(ctx):
    rng = ctx.rng
    quick = ctx.tier == "quick"
    i = 0
    if ctx.mine(3):
        yield "threads", {"n": 3000, "rounds": 60 if quick else 600, "gseed": ctx.seed * 17 + 5}
    # a few very long arrays (one function per case, spread over the shards)
    for f_ in range(10):
        for n_ in ((1 << 22) + 12345, (1 << 20) + 7, 65537):
            if ctx.mine(i) and (not quick or n_ < (1 << 22) or f_ < 10):
                yield "big", {"n": n_, "f": f_, "gseed": ctx.seed * 1000 + i}
            i += 1
    # 10 m altitude grid
    grid = [-500.0 + 10.0 * k for k in range(2051)]
    for c0 in range(0, len(grid), 50):
        if ctx.mine(i):
            yield "atmos", {"H": grid[c0:c0 + 50]}
        i += 1
    if ctx.mine(i):
        yield "tropopause", {}
        yield "atmos", {"H": [10999.999999, 11000.0, 11000.000001, 0.0, -500.0, 20000.0]}
    i += 1
    for k in range(ctx.share(400 if quick else 12000)):
        yield "atmos", {"H": [rng.uniform(-500, 20000) for _ in range(40)]}
    # speed grids at fixed altitudes
    alts = [0.0, -500.0, 1.0, 1000.0, 5000.0, 10999.0, 11000.0, 11001.0, 15000.0, 20000.0]
    alts += [250.0 * k for k in range(0, 81)]
    for H in alts:
        if ctx.mine(i):
            n = 60 if quick else 400
            vs = sorted(set([0.5, 450.0] + [0.5 + 449.5 * k / (n - 1) for k in range(n)]))
            ms = sorted(set([0.001, 1.3] + [1.3 * (k + 1) / n for k in range(n)]))
            yield "speed", {"H": H, "v": vs, "m": ms}
        i += 1
    for k in range(ctx.share(600 if quick else 20000)):
        H = rng.choice((rng.uniform(-500, 20000), rng.uniform(10990, 11010), 0.0))
        vs = sorted(rng.uniform(0.5, 450) for _ in range(30))
        vs = [v for j, v in enumerate(vs) if j == 0 or v - vs[j - 1] > 1e-6]
        ms = sorted(rng.uniform(1e-3, 1.3) for _ in range(30))
        ms = [v for j, v in enumerate(ms) if j == 0 or v - ms[j - 1] > 1e-8]
        yield "speed", {"H": H, "v": vs, "m": ms}
    for k in range(ctx.share(64 if quick else 2000)):
        n = rng.randint(4, 12)
        H = [rng.choice((-500.0, -100.0, 0.0, 10999.0, 11000.0, 11001.0, 20000.0, float(rng.randint(-500, 20000)), rng.uniform(-500, 20000))) for _ in range(n)]
        V = [rng.choice((float(rng.randint(1, 450)), rng.uniform(0.5, 450), 1.0, 450.0)) for _ in range(n)]
        if k % 3 == 0:   # all-integral case for the integer-dtype comparisons
            H = [float(rng.choice((-500, -100, 0, 10999, 11000, 11001, 20000, rng.randint(-500, 20000)))) for _ in range(n)]
            if k % 2 == 0:
                H = [abs(h) for h in H]      # non-negative altitudes: also representable in unsigned dtypes
            V = [float(rng.choice((1, 181, 182, 255, 256, 257, 450, rng.randint(1, 450)))) for _ in range(n)]
        if rng.random() < 0.3:
            # a level segment: every row of the table at the SAME altitude (a cruise leg; a whole number of metres in half of them)
            H = [float(abs(int(H[0]))) if rng.random() < 0.5 else H[0]] * n
            ctx.hit("altitude_table_with_all_rows_equal")
        yield "types", {"H": H, "v": V}
    # geo
    def rp():
        return [math.degrees(math.asin(rng.uniform(-1, 1))), rng.uniform(-180, 180)]
    for k in range(ctx.share(1200 if quick else 24000)):
        kind = ("uniform", "antipodal", "identical", "polar", "antimeridian", "near", "cardinal")[k % 7]
        pairs = []
        for _ in range(40):
            a = rp()
            if kind == "uniform":
                b = rp()
            elif kind == "antipodal":
                b = [-a[0], a[1] + 180.0 if a[1] < 0 else a[1] - 180.0]
            elif kind == "identical":
                b = list(a)
            elif kind == "polar":
                a = [rng.choice((90.0, -90.0, 89.999999, -89.999999)), rng.uniform(-180, 180)]
                b = rp() if rng.random() < 0.5 else [-a[0], rng.uniform(-180, 180)]
            elif kind == "cardinal":
                # legs along a meridian or a parallel, up to a few ulps: the bearing sits on the 0/360 (or 90/180/270) seam
                tiny = rng.choice((0.0, 1e-14, -1e-14, 1e-13, -1e-13, 1e-12, -1e-12, 1e-9, -1e-9))
                c = rng.randrange(4)
                if c == 0:
                    b = [rng.choice((90.0, -90.0)), rng.uniform(-180, 180)]            # destination is a pole
                elif c == 1:
                    b = [math.degrees(math.asin(rng.uniform(-1, 1))), a[1] + tiny]       # same meridian
                elif c == 2:
                    b = [a[0] + tiny, rng.uniform(-180, 180)]                            # same parallel
                    b[0] = max(-90.0, min(90.0, b[0]))
                else:
                    a = [round(a[0]), float(round(a[1]))]
                    b = [float(rng.randint(-90, 90)), a[1] + tiny]                       # integral coordinates
            elif kind == "antimeridian":
                a = [a[0], 180.0 - rng.uniform(0, 0.5)]
                b = [max(-90.0, min(90.0, a[0] + rng.uniform(-0.5, 0.5))), -180.0 + rng.uniform(0, 0.5)]
            else:
                b = [max(-90.0, min(90.0, a[0] + rng.uniform(-1e-3, 1e-3))), a[1] + rng.uniform(-1e-3, 1e-3)]
            pairs.append(a + b)
        yield "geo", {"kind": kind, "pairs": pairs}
