"""C19 - the software demodulator recovers cleanly modulated frames."""
from __future__ import annotations

import contextlib
import io

from .. import core
from ..probe import call
from ..ref import bits, ppm

LEVEL = "exploration"
BRANCH_TARGETS = ['pyModeS.extra.rtlreader:RtlReader._process_buffer', 'pyModeS.extra.rtlreader:RtlReader._check_preamble', 'pyModeS.extra.rtlreader:RtlReader._check_msg', 'pyModeS.extra.rtlreader:RtlReader._calc_noise']
TECHNIQUE = 'runtime monitoring: PPM modulator as forward model, exact list equality on the demodulator output, checksum invariant on every returned DF17'
LEVEL_TEXT = 'Exploration over frame contents, offsets, amplitudes, noise families; regime R1 judged strictly, regime R2 is the recorded finding.'
LEVEL_RULE = (
    "RtlReader._process_buffer() executed on an instance made with object.__new__ over synthetic sample buffers: 1-12 valid "
    "frames (DF17 with correct parity, DF20/21, DF4/5/11) PPM-modulated at 2 samples/us behind the 8 us preamble, amplitude "
    "0.3-1.4 (>=10 dB above the noise floor), start offsets of both parities, >= one frame length of noise between frames and "
    ">=600 samples at the end, noise families constant / uniform / Rayleigh-clipped; plus corrupted DF17 frames and pure "
    "noise. Oracle: returned list == frame list (order, upper-case hex, length); no returned DF17 message has a non-zero "
    "reference CRC. Regime R1 (noise peak < 0.2*pulse amplitude) is judged strictly; regime R2 (noise >= 0.2*amplitude) is the "
    "recorded finding. Distinct = distinct buffer hashes."
)
EXHAUSTIVE_SUBDOMAINS = []
ASSUMPTIONS = ["pulse samples carry the amplitude plus a small share of the noise; low samples carry noise only", "regime R2 (noise between 0.2 x and 0.316 x the weakest pulse, i.e. 10-13.5 dB SNR) was the recorded finding eof-threshold-below-noise until fix b07124f; it is now judged as strictly as R1",
               "R1 = noise peak below the demodulator's own end-of-frame threshold (0.2 x strongest pulse of the frame)"]
REQUIRED = ["r1_buffers", "r2_buffers", "second_buffer", "second_buffer_short_tail", "min_gap_after_short", "min_gap_after_long", "df17", "df20", "df21", "df4", "df5", "df11", "offset_even", "offset_odd",
            "corrupted_df17_rejected", "weakest_pulse_exactly_10dB_above_floor", "pure_noise", "multi_frame", "same_frame_twice_in_a_row", "second_reader_alive", "reader_in_debug_mode", "sessions", "session_buffer_11_or_later", "big_busy_first_buffer", "buffer_longer_than_nominal_size",
            "iq_reads_through_read_callback", "reply_cut_by_the_end_of_the_buffer", "buffer_ends_right_after_a_preamble", "two_readers_built_through_init_fed_alternately", "noise_floor_exactly_zero", "strong_frames_over_a_floor_above_0.316"]


def reader():
    with contextlib.redirect_stdout(io.StringIO()):
        from pyModeS.extra import rtlreader
    r = object.__new__(rtlreader.RtlReader)
    r.signal_buffer = []
    r.noise_floor = 1e6
    r.debug = False
    r.raw_pipe_in = None
    r.stop_flag = False
    r.exception_queue = None
    return r


def reader_through_init():
    """a reader built by the class's own __init__ (what an application does), with a stand-in for the pyrtlsdr driver object"""
    import types
    with contextlib.redirect_stdout(io.StringIO()):
        from pyModeS.extra import rtlreader

    class _Sdr:
        def close(self):
            pass

        def read_samples(self, n):
            raise RuntimeError("no hardware")
    stub = types.ModuleType("rtlsdr")
    stub.RtlSdr = _Sdr
    had = getattr(rtlreader, "rtlsdr", None)
    rtlreader.rtlsdr = stub
    try:
        with contextlib.redirect_stdout(io.StringIO()):
            return rtlreader.RtlReader()
    finally:
        if had is None:
            try:
                del rtlreader.rtlsdr
            except AttributeError:
                pass
        else:
            rtlreader.rtlsdr = had


def noise_sample(rng, fam, L, P):
    if fam == "const":
        return L
    if fam == "uniform":
        return rng.uniform(0, P)
    # Rayleigh clipped at P (sigma chosen so that the mean is about L)
    import math
    sigma = L / 1.2533
    v = sigma * math.sqrt(-2.0 * math.log(1.0 - rng.random()))
    return min(v, P)


def build(rng, case):
    """returns samples, expected list of hex, info"""
    fam, L, P = case["fam"], case["L"], case["P"]
    buf = []
    exp = []
    frames_info = []

    def noise(n):
        for _ in range(n):
            buf.append(noise_sample(rng, fam, L, P))

    noise(case["lead"])
    if case.get("zero_block"):
        # a zero-filled stretch (a dropped USB transfer, a muted front end): two whole 100 us windows of exact zeros - the running
        # noise floor becomes 0, which is a floor like any other ("at least 10 dB above" it holds for every pulse)
        for j_ in range(min(400, len(buf))):
            buf[j_] = 0.0
    for fr in case["frames"]:
        x = int(fr["hex"], 16)
        n = len(fr["hex"]) * 4
        A = fr["amp"]
        start = len(buf)
        samples = ppm.modulate(x, n, A)
        for bi_ in fr.get("weak", ()):
            # a faded bit: both chips carry almost the same energy and the pair leans the WRONG way - the demodulator reads
            # the inverted bit (an ordinary on-air bit error).  Such a frame is not "cleanly modulated": it is not expected
            # back, but whatever comes back must never be a DF17 frame with a non-zero checksum
            j_ = 16 + 2 * bi_
            hi_first = samples[j_] > 0
            samples[j_], samples[j_ + 1] = (A * 0.93, A) if hi_first else (A, A * 0.93)
        for s in samples:
            nz = noise_sample(rng, fam, L, P)
            buf.append((s if case.get("pure") else s + 0.3 * nz) if s > 0 else nz)
        frames_info.append({"start": start, "n": n, "amp": A, "hex": fr["hex"], "valid": fr.get("valid", True) and not fr.get("weak")})
        if fr.get("valid", True) and not fr.get("weak"):
            exp.append(fr["hex"].upper())
        noise(fr["gap"])
    noise(case["tail"])
    if case.get("dangling"):
        # the read boundary cuts through a reply: only its first samples (the preamble alone, or the preamble and part of the
        # data) are in this buffer.  It is not one of the frames of this buffer - the complete ones before it still are
        hx_, n_, A_, k_ = case["dangling"]
        for s in ppm.modulate(int(hx_, 16), n_, A_)[:k_]:
            nz = noise_sample(rng, fam, L, P)
            buf.append(s + 0.3 * nz if s > 0 else nz)
    return buf, exp, frames_info


KNOWN_GATE_AT_ZERO = "frames-lost-or-spurious-after-noise-matched-the-preamble-template-with-the-gate-at-zero"


def gate_at_zero_and_noise_reaches_template(case):
    """the mechanism of the known finding: a zero-filled stretch pins the reader's running-minimum floor (and so its amplitude gate)
    to 0 while the noise elsewhere reaches 0.2 - the level at which a sample satisfies a "pulse" position of the preamble template
    (tolerance 0.8): noise alone then passes as a preamble, and the rejected candidate still advances the scan by up to 240
    samples.  Decidable from the case alone, before anything is run."""
    return bool(case.get("zero_block")) and case["P"] >= 0.2


def m_buffer(ctx, case):
    import random as _r
    rng = _r.Random(case["bseed"])
    buf, exp, info = build(rng, case)
    r = reader()
    if case["bseed"] % 3 == 0:
        # a second reader object is alive (another dongle) and has just processed a loud buffer of its own
        r2 = reader()
        r2.signal_buffer = [0.9 if (j // 7) % 2 else 0.5 for j in range(2400)]
        call(r2._process_buffer)
        ctx.hit("second_reader_alive")
    r.signal_buffer = list(buf)
    if case["bseed"] % 5 == 1:
        r.debug = True           # the reader's debug mode prints what it sees; what it RETURNS stays the same
        ctx.hit("reader_in_debug_mode")
    with contextlib.redirect_stdout(io.StringIO()):
        res = call(r._process_buffer)
    ctx.ev()
    if case.get("second") and res[0] == "ok" and isinstance(res[1], list):
        # the reader keeps state between buffers (left-over samples, running noise floor): a second buffer of the same
        # noise family is appended the way _read_callback does and must be decoded just as well
        rng2 = _r.Random(case["bseed"] + 1)
        buf2, exp2, info2 = build(rng2, dict(case, frames=case["second"]))
        off = len(buf) - len(r.signal_buffer)
        r.signal_buffer.extend(buf2)
        with contextlib.redirect_stdout(io.StringIO()):
            res2 = call(r._process_buffer)
        ctx.ev()
        ctx.hit("second_buffer")
        if case.get("short_tail"):
            ctx.hit("second_buffer_short_tail")
        if res2[0] != "ok" or not isinstance(res2[1], list):
            res = res2
        else:
            res = ("ok", list(res[1]) + list(res2[1]))
            exp = exp + exp2
            info = info + [dict(f, start=f["start"] + len(buf)) for f in info2]
    regime = case["regime"]
    ctx.hit("r1_buffers" if regime == "R1" else "r2_buffers" if regime == "R2" else "pure_noise")
    if case.get("zero_floor") or case.get("zero_block"):
        ctx.hit("noise_floor_exactly_zero")
    if case.get("dangling"):
        ctx.hit("reply_cut_by_the_end_of_the_buffer")
        if case["dangling"][3] == 16:
            ctx.hit("buffer_ends_right_after_a_preamble")
    short = {"fam": case["fam"], "L": case["L"], "P": case["P"], "bseed": case["bseed"], "regime": regime,
             "frames": [(f["start"], f["n"], f["amp"], f["hex"], f["valid"]) for f in info]}
    if res[0] != "ok":
        ctx.violation(KNOWN_GATE_AT_ZERO if gate_at_zero_and_noise_reaches_template(case) else "process_buffer-raises-%s" % res[1],
                      observed=res[1:], **short)
        return
    out = res[1]
    if not isinstance(out, list) or any(not (isinstance(m, list) and len(m) == 2 and isinstance(m[0], str)) for m in out):
        ctx.violation("process_buffer-shape", observed=repr(out)[:200], **short)
        return
    got = [m[0] for m in out]
    # never a DF17 frame with a non-zero checksum (all regimes, incl. corrupted frames and pure noise)
    for g in got:
        try:
            x = int(g, 16)
        except ValueError:
            ctx.violation("returned-message-not-hex", message=g, **short)
            return
        if len(g) == 28 and (x >> 107) == 17 and bits.polymod(x, 112) != 0:
            ctx.violation("df17-with-bad-checksum-returned", message=g, **short)
            return
    if any(not f["valid"] for f in info):
        ctx.hit("corrupted_df17_rejected")
    if any(a["hex"] == b["hex"] and a["valid"] and b["valid"] for a, b in zip(info, info[1:])):
        ctx.hit("same_frame_twice_in_a_row")
    if regime == "noise":
        ctx.nontrivial(("b", case["bseed"], "noise"))
        return
    if case.get("pure") and exp:
        ctx.hit("weakest_pulse_exactly_10dB_above_floor")
    if got != exp:
        missing = [e for e in exp if e not in got]
        extra = [g for g in got if g not in exp]
        key = "frame-lost" if missing and not extra else "frame-corrupted-or-spurious" if extra else "frames-reordered-or-duplicated"
        if regime == "R2":
            key += "-at-10-to-14dB-snr"     # the regime of the former finding eof-threshold-below-noise (fixed in b07124f)
        if gate_at_zero_and_noise_reaches_template(case):
            key = KNOWN_GATE_AT_ZERO
        ctx.violation(key, expected=exp, observed=got, **short)
        return
    for f in info:
        if f["valid"]:
            ctx.hit("df%d" % (int(f["hex"][:2], 16) >> 3))
            ctx.hit("offset_even" if f["start"] % 2 == 0 else "offset_odd")
    if len(exp) > 1:
        ctx.hit("multi_frame")
    for a, b in zip(info, info[1:]):
        if b["start"] - (a["start"] + 16 + 2 * a["n"]) <= 2 * a["n"] + 1:
            ctx.hit("min_gap_after_short" if a["n"] == 56 else "min_gap_after_long")
    if any(g != g.upper() for g in got):
        ctx.violation("lower-case-output", observed=got, **short)
    ctx.nontrivial(("b", case["bseed"], tuple(exp)))
    if ctx.rng.random() < 0.02:
        ctx.sample({"regime": regime, "noise": [case["fam"], case["L"], case["P"]], "samples": len(buf), "frames": exp[:3], "returned": got[:3]})


def m_session(ctx, case):
    """one reader over many consecutive buffers: an ordinary first buffer, then busy ones (strong short replies at the
    minimum spacing from the first to the last sample, a few weak replies among them) - state kept between buffers
    (running noise floor, left-over samples) must not cost a frame in ANY buffer of the run"""
    import random as _r
    rng = _r.Random(case["bseed"])
    r = reader()
    P = case["P"]
    for bi, frames in enumerate(case["buffers"]):
        sub = {"fam": "uniform", "L": P / 2, "P": P, "lead": case["leads"][bi], "tail": case["tails"][bi], "frames": frames}
        buf, exp, info = build(rng, sub)
        r.signal_buffer.extend(buf)
        res = call(r._process_buffer)
        ctx.ev()
        short = {"buffer_index": bi, "buffers": len(case["buffers"]), "P": P, "bseed": case["bseed"], "noise_floor": getattr(r, "noise_floor", None),
                 "frames": [(f["start"], f["n"], f["amp"], f["hex"]) for f in info][:40]}
        if res[0] != "ok" or not isinstance(res[1], list):
            ctx.violation("process_buffer-raises-%s" % (res[1] if res[0] != "ok" else "shape"), observed=repr(res[1:])[:200], **short)
            return
        got = [m[0] for m in res[1]]
        if got != exp:
            missing = [e for e in exp if e not in got]
            extra = [g for g in got if g not in exp]
            key = "frame-lost" if missing and not extra else "frame-corrupted-or-spurious" if extra else "frames-reordered-or-duplicated"
            ctx.violation(key + "-in-later-buffer-of-a-session", missing=missing[:5], extra=extra[:5],
                          missing_amplitudes=sorted(set(f["amp"] for f in info if f["hex"].upper() in missing))[:5], **short)
            return
        ctx.hit("session_buffers")
        if bi >= 10:
            ctx.hit("session_buffer_11_or_later")
    ctx.hit("big_busy_first_buffer" if case.get("big") else "sessions")
    if case.get("big") and len(case["buffers"][0]) > 1000:
        ctx.hit("buffer_longer_than_nominal_size")
    ctx.nontrivial(("s", case["bseed"]))


def mksession(rng):
    nb = rng.randint(12, 15)
    P = rng.choice((0.02, 0.04, 0.05))
    buffers, leads, tails = [], [], []
    for bi in range(nb):
        fr = []
        if bi == 0 or (bi < 3 and rng.random() < 0.5):
            for _ in range(rng.randint(1, 4)):      # ordinary buffer: plenty of quiet 100 us windows
                hx, n = rand_frame(rng)
                fr.append({"hex": hx, "amp": rng.uniform(0.3, 1.4), "gap": rng.randint(2 * n, 900), "valid": True})
            leads.append(rng.randint(200, 700))
            tails.append(600 + rng.randrange(300))
        else:
            lead = rng.choice((0, 1, 2, 17, 50))
            pos, nweak = lead, 0
            wmax = rng.choice((0, 0, 1, 1, 2)) if bi < 10 else rng.choice((1, 2, 3))
            for k in range(rng.randint(40, 70)):    # busy buffer: no aligned 100 us window is free of pulses
                hx, n = rand_frame(rng, rng.choice((4, 5, 11)))
                # a few weak replies, preferably lying across a 100 us window boundary (so that every window they touch
                # also holds energy of a strong neighbour)
                straddles = 125 <= pos % 200 <= 147
                weak = nweak < wmax and 3 < k and ((straddles and rng.random() < 0.7) or rng.random() < 0.003)
                nweak += weak
                gap = rng.choice((112, 113, 114, 114, 120))
                fr.append({"hex": hx, "amp": rng.uniform(0.30, 0.32) if weak else rng.choice((1.4, 1.4, rng.uniform(1.2, 1.4))),
                           "gap": gap, "valid": True})
                pos += 16 + 2 * n + gap
            fr[-1]["gap"] = rng.choice((0, 2, 40, 112))
            leads.append(lead)
            tails.append(0)
        buffers.append(fr)
    return {"buffers": buffers, "leads": leads, "tails": tails, "P": P, "bseed": rng.getrandbits(40)}


def mkbig(rng):
    """one buffer of the size the real reader processes (hundreds of 100 us windows), busy from the first to the last sample
    except for ONE or two short pauses, with a few weaker replies among the strong ones"""
    n_fr = rng.choice((500, 850, 850, 1150))     # 1150 frames: more samples than the reader's nominal buffer size (204800)
    fr = []
    pauses = set(rng.sample(range(10, n_fr - 10), 1))
    weak = set(rng.sample(range(5, n_fr - 5), rng.choice((2, 4, 8))))
    for k in range(n_fr):
        hx, n = rand_frame(rng, rng.choice((4, 5, 11)) if k not in weak or rng.random() < 0.5 else 17)
        own = 2 * n
        fr.append({"hex": hx, "amp": rng.uniform(0.3, 0.5) if k in weak else rng.choice((1.4, rng.uniform(1.2, 1.4))),
                   "gap": (rng.randint(400, 620) if k in pauses else rng.choice((own, own + 1, own + 2, own + 8))), "valid": True})
    fr[-1]["gap"] = rng.choice((0, 3, 60))
    return {"buffers": [fr], "leads": [rng.choice((0, 1, 30))], "tails": [0], "P": rng.choice((0.02, 0.04)), "bseed": rng.getrandbits(40), "big": 1}


def m_callback(ctx, case):
    """the same buffers through the reader's real entry point: complex IQ reads handed to _read_callback (which takes the
    magnitudes, appends them and runs the buffer processor once the nominal buffer size is reached) with the frames it
    hands to handle_messages collected.  Normalised IQ magnitudes legitimately reach 1.414: a strong frame (1.0-1.4) over
    a floor that leaves it 10-13 dB must arrive like any other"""
    import random as _r
    import cmath
    import numpy as np
    rng = _r.Random(case["bseed"])
    buf, exp, info = build(rng, case)
    with contextlib.redirect_stdout(io.StringIO()):
        from pyModeS.extra import rtlreader
    total = max(int(rtlreader.buffer_size), len(buf)) + rng.choice((0, 1, 77))
    fam, L, P = case["fam"], case["L"], case["P"]
    while len(buf) < total:
        buf.append(noise_sample(rng, fam, L, P))
    if case.get("pure"):
        # magnitudes must come out exactly: phases on the axes only
        ph = (1, -1, 1j, -1j)
        data = np.array([a * ph[rng.randrange(4)] for a in buf], dtype=np.complex128)
    else:
        data = np.array([cmath.rect(a, rng.uniform(-3.14159, 3.14159)) for a in buf], dtype=np.complex128)
    two = case["bseed"] % 3 == 0
    r = reader_through_init() if two else reader()
    got_batches = []
    r.handle_messages = lambda messages: got_batches.append(list(messages))
    cuts = sorted(set([0, len(data)] + ([len(data) // 2] if case["bseed"] % 2 else [int(rtlreader.read_size), len(data) - 5])))
    res = ("ok", None)
    other_batches = []
    if two:
        # two dongles in one program: a second reader, built the same way, receives reads of pure noise in between - what a
        # reader has collected is its own
        r2 = reader_through_init()
        r2.handle_messages = lambda messages: other_batches.append(list(messages))
        noise2 = np.array([noise_sample(rng, fam, L, P) for _ in range(len(data))], dtype=np.complex128)
    with contextlib.redirect_stdout(io.StringIO()):
        for a, b in zip(cuts, cuts[1:]):
            res = call(r._read_callback, data[a:b], None)
            if res[0] != "ok":
                break
            if two:
                res2 = call(r2._read_callback, noise2[a:b], None)
                if res2[0] != "ok":
                    res = res2
                    break
    ctx.ev()
    short = {"fam": fam, "L": L, "P": P, "bseed": case["bseed"], "regime": case["regime"], "samples": len(data),
             "frames": [(f["start"], f["n"], f["amp"], f["hex"], f["valid"]) for f in info]}
    if res[0] != "ok":
        ctx.violation("read_callback-raises-%s" % res[1], observed=res[1:], **short)
        return
    if len(got_batches) != 1:
        ctx.violation("read_callback-did-not-process-a-full-buffer-once", batches=len(got_batches), two_readers=two, **short)
        return
    if two:
        if len(other_batches) != 1 or other_batches[0]:
            ctx.violation("second-reader-fed-noise-did-not-report-exactly-one-empty-batch", batches=[len(b_) for b_ in other_batches], **short)
            return
        ctx.hit("two_readers_built_through_init_fed_alternately")
    try:
        got = [m[0] for m in got_batches[0]]
    except Exception:
        ctx.violation("read_callback-shape", observed=repr(got_batches[0])[:200], **short)
        return
    for g in got:
        x = int(g, 16)
        if len(g) == 28 and (x >> 107) == 17 and bits.polymod(x, 112) != 0:
            ctx.violation("df17-with-bad-checksum-returned", message=g, **short)
            return
    if got != exp:
        missing = [e for e in exp if e not in got]
        extra = [g for g in got if g not in exp]
        key = "frame-lost" if missing and not extra else "frame-corrupted-or-spurious" if extra else "frames-reordered-or-duplicated"
        ctx.violation(KNOWN_GATE_AT_ZERO if gate_at_zero_and_noise_reaches_template(case) else key + "-through-read_callback",
                      expected=exp, observed=got, **short)
        return
    ctx.hit("iq_reads_through_read_callback")
    if exp and min(f["amp"] for f in info if f["valid"]) > 1.0 and L > 0.3163:
        ctx.hit("strong_frames_over_a_floor_above_0.316")
    ctx.nontrivial(("c", case["bseed"], tuple(exp)))


MONITORS = {"buffer": m_buffer, "session": m_session, "callback": m_callback}


def rand_frame(rng, kind=None):
    df = kind or rng.choice((17, 17, 17, 20, 21, 4, 5, 11))
    n = 112 if df in (17, 20, 21) else 56
    # DF11 replies carry the interrogator code (II/SI) overlaid on the parity; 0 only for spontaneous squitters
    x = bits.downlink(df, rng.fill(n - 29), n, rng.fill(24), rng.choice((0, rng.randrange(1, 80), rng.randrange(1, 16))))
    return "%0*X" % (n // 4, x), n


def mkcase(rng, regime, nframes=None, force_df=None, strong=False):
    fam = rng.choice(("const", "uniform", "rayleigh"))
    nfr = nframes if nframes is not None else rng.choice((1, 1, 2, 3, 5, 8, 12))
    amps = []
    for _ in range(nfr):
        amps.append(rng.choice((0.3, 1.4, rng.uniform(0.3, 1.4), rng.uniform(0.3, 0.5))))
    if strong:
        amps = [rng.choice((1.4, rng.uniform(1.01, 1.4))) for _ in range(nfr)]   # every frame above 1.0 (IQ magnitudes reach 1.414)
    amin = min(amps) if amps else 0.3
    if regime == "R1":
        P = rng.uniform(0.002, 0.19) * amin
        L = P if fam == "const" else P * rng.uniform(0.3, 0.6)
    elif regime == "R2":
        fam = "const"
        P = L = rng.uniform(0.21, 0.31) * amin   # 10..13.5 dB below the weakest pulse
        exact = rng.random() < 0.3
        if exact:
            # the weakest pulses sit EXACTLY 10 dB (a factor sqrt(10) in amplitude) above a constant floor - the inclusive edge
            # of the property; the reader's gate is 3.162 x its floor estimate, 9e-5 (relative) below sqrt(10)
            P = L = amin / 10 ** 0.5
    else:
        P = rng.uniform(0.01, 0.3)
        L = P if fam == "const" else P / 2
    frames = []
    for k in range(nfr):
        hx, n = rand_frame(rng, force_df)
        valid = True
        if hx[0] == "8" and rng.random() < 0.2 and int(hx[:2], 16) >> 3 == 17:
            # corrupt a DF17 frame (1-3 bit flips outside the DF field): must not be returned
            x = int(hx, 16)
            if rng.random() < 0.4:
                x ^= rng.choice((1, 2, 3, 1 << rng.randrange(24)))   # error confined to the parity field: tiny remainder
            else:
                for p in rng.sample(range(0, 107), rng.choice((1, 2, 3))):
                    x ^= 1 << p
            hx = "%028X" % x
            valid = False
        own = 2 * n   # samples of this frame: "separated by at least one frame length of noise" = at least its own length
        fr_ = {"hex": hx, "amp": amps[k], "gap": rng.choice((own, own + 1, own + 2, 240, 300, 500, rng.randint(own, 900))) + rng.randrange(2),
               "valid": valid}
        if valid and n == 112 and int(hx[:2], 16) >> 3 == 17 and regime == "R1" and rng.random() < 0.15:
            fr_["weak"] = sorted(rng.sample(range(5, 112), rng.choice((1, 1, 2))))     # a DF17 frame with one or two faded bits
        frames.append(fr_)
        if valid and not fr_.get("weak") and rng.random() < 0.12:
            # the same reply transmitted again right away (a transponder answering two interrogators): both copies count
            frames.append(dict(fr_, amp=rng.choice((amps[k], rng.uniform(amin, 1.4))), gap=rng.choice((own, own + 2, 240, 400, rng.randint(own, 700)))))
    c = {"fam": fam, "L": L, "P": P, "lead": rng.choice((200, 201, 333, 400, rng.randint(200, 700))), "tail": 600 + rng.randrange(0, 300),
         "frames": frames, "regime": regime, "bseed": rng.getrandbits(40)}
    if regime == "R1" and not strong:
        u_ = rng.random()
        if u_ < 0.06:
            c["fam"], c["L"], c["P"] = "const", 0.0, 0.0        # a noise-free background (a signal generator, a simulation): floor exactly 0
            c["zero_floor"] = True
        elif u_ < 0.12:
            c["zero_block"] = True
            c["lead"] = rng.choice((450, 451, 600))
    if regime == "R2" and exact:
        c["pure"] = True     # pulse samples carry the amplitude alone (no share of the noise on top)
    if regime == "R1" and frames and rng.random() < 0.08:
        hx_, n_ = rand_frame(rng)
        c["dangling"] = (hx_, n_, rng.choice((0.3, 1.0, 1.4, rng.uniform(max(0.3, 12 * P), 1.4))), rng.choice((16, 16, 17, 18, 40, n_ + 18, 2 * n_ + 15)))      # always short of the complete reply (16 + 2 n samples)
        return c
    if frames and rng.random() < 0.25:
        k = rng.randint(1, len(frames))
        c["second"] = [dict(f) for f in frames[:k]]
        for f in c["second"]:
            hx, _n = rand_frame(rng, int(f["hex"][:2], 16) >> 3)
            f["hex"], f["valid"] = hx, True
        if rng.random() < 0.6:
            # the last frame of the first buffer is complete but ends only a few samples before the buffer does: it must
            # come out exactly once over the two calls (neither lost nor emitted again from the left-over samples)
            c["frames"][-1]["gap"] = rng.choice((0, 1, 2, 3, 40, 112, 113, 114, 200))
            c["tail"] = 0
            c["short_tail"] = True
    return c


def cases(ctx):
    rng = ctx.rng
    quick = ctx.tier == "quick"
    i = 0
    import random as _r
    drng = core.Rng(99)
    for df in (17, 20, 21, 4, 5, 11):
        for lead in (200, 201):
            c = mkcase(drng, "R1", 2, df)
            c["lead"] = lead
            for f in c["frames"]:
                f["valid"] = True if df != 17 else f["valid"]
            if ctx.mine(i):
                yield "buffer", c
            i += 1
    if ctx.shard == 0:
        # the recorded witness of the known finding (KNOWN_FINDINGS.txt): flat noise at 0.256, two 100 us windows of zeros at the
        # start of the buffer, the same long reply twice at amplitude 1.4 (14.7 dB above the noise) 225 samples apart
        yield "buffer", {"fam": "const", "L": 0.2558601249236899, "P": 0.2558601249236899, "lead": 450, "tail": 802, "regime": "R1",
                         "bseed": 132789519310, "zero_block": True,
                         "frames": [{"hex": "A373906FDFD0A56698223F513557", "amp": 1.4, "gap": 225, "valid": True},
                                    {"hex": "A373906FDFD0A56698223F513557", "amp": 1.4, "gap": 224, "valid": True}]}
    for k in range(ctx.share(3000 if quick else 100000)):
        yield "buffer", mkcase(rng, "R1")
    for k in range(ctx.share(300 if quick else 6000)):
        yield "buffer", mkcase(rng, "R2")
    for k in range(ctx.share(200 if quick else 5000)):
        yield "buffer", mkcase(rng, "noise", 0)
    for k in range(ctx.share(160 if quick else 3000)):
        yield "buffer", mkcase(rng, "R2", None, None, True)      # strong frames only, floor up to 0.44
    for k in range(max(3, ctx.share(64 if quick else 640))):
        c = mkcase(rng, ("R2", "R2", "R1")[k % 3], rng.choice((1, 2, 3, 5)), None, k % 3 != 2)
        c.pop("second", None)
        c.pop("dangling", None)      # (the callback monitor pads the buffer to the nominal size: nothing is cut at its end)
        if c.pop("short_tail", None):
            c["tail"] = 600
        yield "callback", c
    for k in range(ctx.share(48 if quick else 800)):
        yield "session", mksession(rng)
    for k in range(ctx.share(16 if quick else 160)):
        c = mkbig(rng)
        if k == 0 and len(c["buffers"][0]) <= 1000:
            tail_ = [dict(f) for f in c["buffers"][0][: 1150 - len(c["buffers"][0])]]   # every shard: one over-long buffer
            c["buffers"][0][-1]["gap"] = 2 * (len(c["buffers"][0][-1]["hex"]) * 4) + 4
            tail_[-1]["gap"] = 3
            c["buffers"][0] = c["buffers"][0] + tail_
        yield "session", c
