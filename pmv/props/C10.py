"""C10 - aircraft identification: callsign and category round-trip."""
from __future__ import annotations

from ..probe import call
from ..ref import bits

LEVEL = "exploration"
BRANCH_TARGETS = ['pyModeS.decoder.bds.bds08:callsign', 'pyModeS.decoder.bds.bds08:category', 'pyModeS.decoder.bds.bds20:cs20', 'pyModeS.decoder.bds.bds20:is20']
TECHNIQUE = 'runtime monitoring: forward six-bit encoder as oracle, exhaustive (code x position), pairwise independence relation'
LEVEL_TEXT = 'Exhaustive over 37 codes x 8 positions for both carriers; 37^8 strings sampled.'
LEVEL_RULE = (
    "adsb.callsign / adsb.category on TC1-4 identification messages (DF17/18) and commb.cs20 / is20 on BDS 2,0 registers "
    "in DF20/21, built forward from 8-character strings over A-Z 0-9 space: every legal code (37) at every position (8) with "
    "the other seven random (exhaustive), plus random strings; oracle: same eight characters with '_' for space, category = "
    "field, and changing one character code changes only that output position. Distinct = distinct message hashes."
)
EXHAUSTIVE_SUBDOMAINS = ["37 legal character codes x 8 positions x {ADS-B, BDS 2,0}", "TC 1-4 x category 0-7"]
ASSUMPTIONS = ["six-bit alphabet per Annex 10: A-Z = 1..26, space = 32, 0-9 = 48..57"]
REQUIRED = ["header_bits_recur_inside_identification", "identification_hex_from_two_digit_alphabet", "first_identifications_again_after_70k_others", "adsb", "bds20", "independence", "df17", "df18", "df20", "df21"] + ["tc%d" % t for t in (1, 2, 3, 4)]

ALPHA = {**{chr(64 + i): i for i in range(1, 27)}, " ": 32, **{str(d): 48 + d for d in range(10)}}
LEGAL = sorted(ALPHA)


def enc(s8):
    v = 0
    for ch in s8:
        v = (v << 6) | ALPHA[ch]
    return v


def m_adsb(ctx, case):
    from pyModeS import adsb
    rng = ctx.rng
    s8, tc, cat, df = case["cs"], case["tc"], case["cat"], case["df"]
    me = (tc << 51) | (cat << 48) | enc(s8)
    hx = bits.anypi(rng, "%028X" % bits.es_frame(df, rng.randrange(8), rng.fill(24), me))
    if "hdr" in case:
        # the first 40 bits of the frame (DF, CA, address, TC, category) RECUR inside the identification at bit offset `o`: a
        # decoder that finds its field by searching for the header (split / partition / find) cuts at the wrong place
        hx = "%028X" % bits.es_frame(df, (case["hdr"] >> 32) & 7, (case["hdr"] >> 8) & 0xFFFFFF, me)
        assert int(hx, 16) >> 72 == case["hdr"]
        ctx.hit("header_bits_recur_inside_identification")
    if case.get("lower"):
        hx = hx.lower()
    exp = s8.replace(" ", "_")
    r = call(adsb.callsign, hx)
    ctx.ev()
    if r != ("ok", exp):
        ctx.violation("callsign-wrong", frame=hx, expected=exp, observed=r[1:])
    r = call(adsb.category, hx)
    ctx.ev()
    if r != ("ok", cat) or isinstance(r[1], bool):
        ctx.violation("category-wrong", frame=hx, expected=cat, observed=r[1:])
    ctx.hit("adsb")
    ctx.hit("tc%d" % tc)
    ctx.hit("df%d" % df)
    # independence: change one character, only that output position changes
    pos = case["pos"]
    ch2 = case["ch2"]
    s2 = s8[:pos] + ch2 + s8[pos + 1:]
    me2 = (tc << 51) | (cat << 48) | enc(s2)
    hx2 = "%028X" % bits.es_frame(df, 5, 0x123456, me2)
    if rng.random() < 0.5:
        hx2 = hx2[:-6] + hx[-6:].upper()   # same last 24 bits as the frame decoded just before (parity is not the decoders' business)
        ctx.hit("consecutive_frames_share_pi")
    r2 = call(adsb.callsign, hx2)
    ctx.ev()
    if r[0] == "ok" and r2[0] == "ok" and isinstance(r2[1], str):
        exp2 = s2.replace(" ", "_")
        if r2[1] != exp2:
            ctx.violation("callsign-characters-not-independent", frame=hx2, expected=exp2, observed=r2[1], changed_pos=pos)
        ctx.hit("independence")
    ctx.nontrivial(("cs", hx))
    if ctx.rng.random() < 0.0005:
        ctx.sample({"frame": hx, "callsign": exp, "category": cat})


def m_bds20(ctx, case):
    from pyModeS import commb
    rng = ctx.rng
    s8, df = case["cs"], case["df"]
    mb = (0x20 << 48) | enc(s8)
    hx = "%028X" % bits.commb_frame(df, rng.fill(27), mb, rng.fill(24))
    if "hdr" in case:
        hx = "%028X" % bits.commb_frame(df, (case["hdr"] >> 8) & 0x7FFFFFF, mb, rng.fill(24))
        assert int(hx, 16) >> 72 == case["hdr"]
        ctx.hit("header_bits_recur_inside_identification")
    if case.get("lower"):
        hx = hx.lower()
    exp = s8.replace(" ", "_")
    r = call(commb.cs20, hx)
    ctx.ev()
    if r != ("ok", exp):
        ctx.violation("cs20-wrong", frame=hx, expected=exp, observed=r[1:])
    r = call(commb.is20, hx)
    ctx.ev()
    if r != ("ok", True):
        ctx.violation("is20-rejects-legal-identification", frame=hx, cs=s8, observed=r[1:])
    pos, ch2 = case["pos"], case["ch2"]
    s2 = s8[:pos] + ch2 + s8[pos + 1:]
    hx2 = "%028X" % bits.commb_frame(df, 0, (0x20 << 48) | enc(s2), 0xABCDEF)
    r2 = call(commb.cs20, hx2)
    ctx.ev()
    if r2 != ("ok", s2.replace(" ", "_")):
        ctx.violation("callsign-characters-not-independent", frame=hx2, expected=s2.replace(" ", "_"), observed=r2[1:], changed_pos=pos)
    ctx.hit("bds20")
    ctx.hit("df%d" % df)
    ctx.nontrivial(("c20", hx))


def m_volume(ctx, case):
    """a long-running process: after tens of thousands of OTHER identifications (more than a 16-bit slot count) the first ones
    still decode to themselves - a bounded memo whose eviction leaves stale keys behind shows only after it has wrapped"""
    from pyModeS import adsb, commb
    import random as _r
    rng = _r.Random(case["vseed"])
    n = case["n"]
    first = []
    for k in range(n):
        s8 = "".join(rng.choice(LEGAL) for _ in range(8))
        if case["carrier"] == "bds20":
            hx = "%028X" % bits.commb_frame(20 + (k & 1), rng.getrandbits(27), (0x20 << 48) | enc(s8), rng.getrandbits(24))
            fn = commb.cs20
        else:
            hx = "%028X" % bits.es_frame(17, 5, rng.getrandbits(24), ((1 + k % 4) << 51) | ((k % 8) << 48) | enc(s8))
            fn = adsb.callsign
        r = call(fn, hx)
        ctx.ev()
        if r != ("ok", s8.replace(" ", "_")):
            ctx.violation("callsign-wrong" if case["carrier"] == "adsb" else "cs20-wrong", frame=hx, expected=s8.replace(" ", "_"), observed=r[1:], after_calls=k)
            return
        if k < 1500:
            first.append((hx, s8))
    for hx, s8 in first:
        r = call(fn, hx)
        ctx.ev()
        if r != ("ok", s8.replace(" ", "_")):
            ctx.violation("identification-decoded-differently-after-%dk-others" % (n // 1000), frame=hx, expected=s8.replace(" ", "_"), observed=r[1:], carrier=case["carrier"])
            return
    ctx.hit("first_identifications_again_after_70k_others")
    ctx.nontrivial(("vol", case["carrier"], case["vseed"]))


MONITORS = {"adsb": m_adsb, "bds20": m_bds20, "volume": m_volume}


def cases(ctx):
    rng = ctx.rng
    quick = ctx.tier == "quick"
    i = 0

    def rs():
        return "".join(rng.choice(LEGAL) for _ in range(8))

    for pos in range(8):
        for ch in LEGAL:
            for rep in range(6 if quick else 20):
                if ctx.mine(i):
                    s = rs()
                    s = s[:pos] + ch + s[pos + 1:]
                    c = {"cs": s, "tc": 1 + (i % 4), "cat": (i // 4) % 8, "df": 17 if i % 3 else 18, "pos": rng.randrange(8),
                         "ch2": rng.choice(LEGAL), "lower": i % 5 == 0}
                    yield "adsb", c
                    c2 = dict(c)
                    c2["df"] = 20 if i % 2 else 21
                    yield "bds20", c2
                i += 1
    for tc in (1, 2, 3, 4):
        for cat in range(8):
            if ctx.mine(i):
                yield "adsb", {"cs": rs(), "tc": tc, "cat": cat, "df": 17, "pos": 0, "ch2": "A"}
            i += 1
    # almost blank identifications, exhaustively: one or two non-space characters anywhere, the rest spaces
    nonsp = [c_ for c_ in LEGAL if c_ != " "]
    for p1 in range(8):
        for p2 in range(p1, 8):
            if ctx.mine(i):
                for c1 in nonsp:
                    for c2 in (nonsp if p2 != p1 else [c1]):
                        s = [" "] * 8
                        s[p1], s[p2] = c1, c2
                        c = {"cs": "".join(s), "tc": 1 + (i % 4), "cat": (i // 4) % 8, "df": 17 if (i + len(c1 + c2)) % 2 else 18, "pos": rng.randrange(8),
                             "ch2": rng.choice(LEGAL), "lower": False}
                        yield "adsb", c
                        yield "bds20", dict(c, df=rng.choice((20, 21)))
            i += 1
    # identifications whose 12 hex digits come from a TWO-digit alphabet ("111111111111" = DQDQDQDQ, "444444444444" = QDQDQDQD ...):
    # a field of such a frame looks like a bit string, a decimal number, a repeated character - whatever a helper sniffs for
    inv = {v: k for k, v in ALPHA.items()}
    digs = "01248FA5"
    for a_ in range(len(digs)):
        for b_ in range(a_ + 1, len(digs)):
            if ctx.mine(i):
                found = []
                for mask in range(4096):
                    hx12 = "".join(digs[b_] if (mask >> (11 - q)) & 1 else digs[a_] for q in range(12))
                    v = int(hx12, 16)
                    chars = [(v >> (42 - 6 * q)) & 63 for q in range(8)]
                    if all(c_ in inv for c_ in chars):
                        found.append("".join(inv[c_] for c_ in chars))
                rng.shuffle(found)
                for s8 in found[:120]:
                    c = {"cs": s8, "tc": rng.randrange(1, 5), "cat": rng.randrange(8), "df": rng.choice((17, 18)), "pos": rng.randrange(8), "ch2": rng.choice(LEGAL)}
                    yield "adsb", c
                    yield "bds20", dict(c, df=rng.choice((20, 21)))
                if found:
                    ctx.hit("identification_hex_from_two_digit_alphabet", min(len(found), 120))
            i += 1
    # every period-2 identification (ABABABAB, 37 x 37)
    for c1 in LEGAL:
        if ctx.mine(i):
            for c2 in LEGAL:
                c = {"cs": (c1 + c2) * 4, "tc": rng.randrange(1, 5), "cat": rng.randrange(8), "df": rng.choice((17, 18)), "pos": rng.randrange(8), "ch2": rng.choice(LEGAL)}
                yield "adsb", c
                yield "bds20", dict(c, df=rng.choice((20, 21)))
        i += 1
    for carrier in ("bds20", "adsb"):
        if ctx.mine(i):
            yield "volume", {"carrier": carrier, "n": 70000, "vseed": ctx.seed * 77 + i}
        i += 1
    # the frame's first 40 bits recur inside the 48 identification bits at offset o (rejection sampling over legal identifications)
    for o in range(9):
        for kind in ("adsb", "bds20"):
            if ctx.mine(i):
                found = 0
                for _ in range(400000):
                    s = rs()
                    h = (enc(s) >> (8 - o)) & ((1 << 40) - 1)
                    dfv = h >> 35
                    if kind == "adsb" and dfv in (17, 18) and 1 <= ((h >> 3) & 31) <= 4:
                        yield "adsb", {"cs": s, "tc": (h >> 3) & 31, "cat": h & 7, "df": dfv, "pos": rng.randrange(8), "ch2": rng.choice(LEGAL), "hdr": h, "o": o}
                        found += 1
                    elif kind == "bds20" and dfv in (20, 21) and h & 0xFF == 0x20:
                        yield "bds20", {"cs": s, "df": dfv, "pos": rng.randrange(8), "ch2": rng.choice(LEGAL), "hdr": h, "o": o}
                        found += 1
                    if found >= (12 if quick else 100):
                        break
            i += 1
    for k in range(ctx.share(200000 if quick else 4000000)):
        s = rs() if k % 5 else rng.choice(("        ", "AAAAAAAA", "99999999", "Z       ", "       Z", "KLM1023 "))
        c = {"cs": s, "tc": rng.randrange(1, 5), "cat": rng.randrange(8), "df": rng.choice((17, 18, 20, 21)),
             "pos": rng.randrange(8), "ch2": rng.choice(LEGAL), "lower": k % 7 == 0}
        if c["df"] in (17, 18):
            yield "adsb", c
        else:
            yield "bds20", c
