"""C07 - altitude codes decode to the Annex 10 altitude, exhaustively."""
from __future__ import annotations

from ..probe import call
from ..ref import alt as ralt
from ..ref import bits

LEVEL = "exploration"
BRANCH_TARGETS = ['pyModeS.py_common:altitude', 'pyModeS.py_common:gray2alt', 'pyModeS.py_common:altcode', 'pyModeS.decoder.bds.bds05:altitude', 'pyModeS.decoder.adsb:altitude']
TECHNIQUE = 'runtime monitoring: exhaustive execution of all 8192 / 4096 codes against a table produced by forward Gillham/Q/M encoders, single-bit non-interference probes'
LEVEL_TEXT = 'The code domain is finite and enumerated completely on every run (exhaustive: true for the altitude-field sub-domain); the other frame bits are sampled.'
EXHAUSTIVE = True
LEVEL_RULE = (
    "All 8192 thirteen-bit codes through common.altitude, common.altcode (DF0/4/16/20 frames, random other bits), "
    "surv.altitude (DF4 value, DF5 RuntimeError) and all 4096 twelve-bit fields through adsb.altitude / bds05.altitude for "
    "TC 9-18 and 20-22 (TC 5-8 -> 0), each with several random fillings of every other bit plus single-bit flips outside the "
    "field (non-interference). Oracle: table produced by the forward Gillham / Q / M encoders. Non-trivial = code != 0; "
    "distinct = distinct (code, carrier, filling) hashes."
)
EXHAUSTIVE_SUBDOMAINS = ["all 8192 13-bit altitude codes x DF{0,4,16,20}", "all 4096 12-bit fields x TC{9..18,20,21,22}"]
ASSUMPTIONS = ["M=1 codes: metres*3.28084 accepted within 1 ft (the statement does not fix the rounding)",
               "sentinels -999999/-1 are read as None only when pyModeS.common is the C module"]
REQUIRED = ["alt13_gillham", "alt13_q", "alt13_metric", "alt13_illegal", "alt13_zero", "df0", "df4", "df16", "df20",
            "surv_df5_rejected", "wrong_df_rejected", "tc_gnss", "tc_surface"] + ["tc%d" % t for t in range(9, 19)]

_T = None


def table():
    global _T
    if _T is None:
        _T = ralt.altitude_table()
    return _T


def _is_c():
    import pyModeS
    return pyModeS.common.__name__.endswith("c_common")


def norm(v):
    if _is_c() and v in (-999999, -1):
        return None
    return v


def alt_ok(obs, exp):
    if isinstance(exp, tuple):
        return isinstance(obs, (int, float)) and not isinstance(obs, bool) and abs(obs - exp[1] * 3.28084) <= 1.0
    if exp is None:
        return obs is None
    return obs == exp and not isinstance(obs, bool)


def kind(code):
    if code == 0:
        return "zero"
    if code & 0x40:
        return "metric"
    if code & 0x10:
        return "q"
    return "gillham" if table()[code] is not None else "illegal"


def m_alt13(ctx, case):
    import pyModeS as pms
    from pyModeS.decoder import surv
    rng = ctx.rng
    T = table()
    for code in range(case["lo"], case["hi"]):
        exp = T[code]
        k = kind(code)
        ctx.hit("alt13_" + k)
        b = format(code, "013b")
        r = call(pms.common.altitude, b)
        ctx.ev()
        if r[0] != "ok" or not alt_ok(norm(r[1]), exp):
            ctx.violation("altitude-code-%s-wrong" % k, code=b, expected=exp, observed=r[1:], api="common.altitude")
        for df in (0, 4, 16, 20):
            n = bits.df_len(df)
            for rep in range(case["fill"]):
                body = rng.fill(n - 29)
                # AC field = bits 20..32
                data = (df << (n - 29)) | body
                data = bits.setfield(data << 24, n, 20, 32, code) >> 24
                f = bits.with_pi(data, n, rng.fill(24))
                hx = "%0*X" % (n // 4, f)
                if rep % 3 == 2:
                    hx = hx.lower()
                r = call(pms.common.altcode, hx)
                ctx.ev()
                ctx.hit("df%d" % df)
                if r[0] != "ok" or not alt_ok(norm(r[1]), exp):
                    ctx.violation("altitude-code-%s-wrong" % k, code=b, frame=hx, expected=exp, observed=r[1:], api="common.altcode")
                    break
                if df == 4:
                    r2 = call(surv.altitude, hx)
                    ctx.ev()
                    if r2 != r:
                        ctx.violation("surv-altitude-differs", frame=hx, observed=r2, altcode=r)
                # non-interference: flip one bit outside the field (and outside DF)
                p = rng.choice([q for q in range(6, n + 1) if not 20 <= q <= 32])
                f2 = f ^ (1 << (n - p))
                r3 = call(pms.common.altcode, "%0*X" % (n // 4, f2))
                ctx.ev()
                if r3 != r:
                    ctx.violation("altitude-depends-on-bit-outside-field", frame=hx, flipped_bit=p, a=r, b=r3)
                ctx.nontrivial(("a13", code, df, hx)) if code else None
        # DF5 carrier rejected by surv.altitude, other DFs rejected by altcode
        body = rng.fill(27)
        f5 = bits.setfield(bits.with_pi((5 << 27) | body, 56, 1), 56, 20, 32, code)
        r = call(surv.altitude, "%014X" % f5)
        ctx.ev()
        if not (r[0] == "exc" and r[1] == "RuntimeError"):
            ctx.violation("surv-altitude-accepts-df5", frame="%014X" % f5, observed=r)
        ctx.hit("surv_df5_rejected")
        dfw = rng.choice([d for d in range(32) if d not in (0, 4, 16, 20)])
        n = 112
        fw = bits.setfield(bits.with_pi((dfw << 83) | rng.fill(83), n, 0), n, 20, 32, code)
        r = call(pms.common.altcode, "%028X" % fw)
        ctx.ev()
        if not (r[0] == "exc" and r[1] == "RuntimeError"):
            ctx.violation("altcode-accepts-wrong-df", frame="%028X" % fw, df=dfw, observed=r)
        ctx.hit("wrong_df_rejected")
    if ctx.rng.random() < 0.2:
        ctx.sample({"codes": [case["lo"], case["hi"]], "first": format(case["lo"], "013b"), "expected_first": T[case["lo"]]})


def m_alt12(ctx, case):
    import pyModeS as pms
    from pyModeS import adsb
    from pyModeS.decoder.bds import bds05
    rng = ctx.rng
    T = table()
    for v in range(case["lo"], case["hi"]):
        for tc in case["tcs"]:
            me = (tc << 51) | (rng.fill(3) << 48) | (v << 36) | rng.fill(36)
            f = bits.es_frame(rng.choice((17, 18)), rng.randrange(8), rng.fill(24), me)
            hx = bits.anypi(rng, "%028X" % f)
            if (v + tc) % 7 == 0:
                hx = hx.lower()
            if 9 <= tc <= 18:
                code13 = ((v >> 6) << 7) | (v & 0x3F)  # widen with M=0
                exp = T[code13]
                ctx.hit("tc%d" % tc)
            elif 20 <= tc <= 22:
                exp = ("gnss", v)
                ctx.hit("tc_gnss")
            else:
                exp = 0
                ctx.hit("tc_surface")
            ra = call(adsb.altitude, hx)
            ctx.ev()
            if tc >= 9:
                rb = call(bds05.altitude, hx)
                ctx.ev()
                if ra != rb:
                    ctx.violation("adsb-altitude-routing", frame=hx, adsb=ra, bds05=rb)
            if ra[0] != "ok":
                ctx.violation("adsb-altitude-raises", frame=hx, observed=ra[1:])
                continue
            obs = ra[1]
            if isinstance(exp, tuple) and exp[0] == "gnss":
                ok = isinstance(obs, (int, float)) and abs(obs - v * 3.28084) <= 1e-9 * max(1.0, v * 3.28084)
            elif isinstance(exp, tuple):
                ok = alt_ok(norm(obs), exp)
            else:
                ok = alt_ok(norm(obs), exp)
            if not ok:
                ctx.violation("adsb-altitude-wrong", frame=hx, tc=tc, field="%03X" % v, expected=exp, observed=obs)
            # non-interference
            p = rng.choice([q for q in range(38, 113) if not 41 <= q <= 52])  # outside TC(33-37) and alt(41-52)
            r3 = call(adsb.altitude, "%028X" % (f ^ (1 << (112 - p))))
            ctx.ev()
            if r3 != ra:
                ctx.violation("altitude-depends-on-bit-outside-field", frame=hx, flipped_bit=p, a=ra, b=r3)
            if v:
                ctx.nontrivial(("a12", v, tc, hx))


MONITORS = {"alt13": m_alt13, "alt12": m_alt12}


def cases(ctx):
    quick = ctx.tier == "quick"
    i = 0
    for lo in range(0, 8192, 64):
        if ctx.mine(i):
            yield "alt13", {"lo": lo, "hi": lo + 64, "fill": 10 if quick else 24}
        i += 1
    tcs_all = list(range(9, 19)) + [20, 21, 22]
    for lo in range(0, 4096, 64):
        for rep in range(3 if quick else 6):
            if ctx.mine(i):
                yield "alt12", {"lo": lo, "hi": lo + 64, "tcs": tcs_all + [5 + (lo // 64 + rep) % 4]}
            i += 1
