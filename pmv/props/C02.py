"""C02 - ICAO address recovery is exact and canonical for every downlink format."""
from __future__ import annotations

from ..probe import call
from ..ref import bits

LEVEL = "exploration"
BRANCH_TARGETS = ['pyModeS.py_common:icao', 'pyModeS.py_common:df', 'pyModeS.decoder.allcall:icao']
TECHNIQUE = 'runtime monitoring: forward frame builder (AA field / address-parity overlay) as oracle on real icao() calls + aircraft-table state check'
LEVEL_TEXT = 'Exploration over DF(32) x length x letter case with structured and random addresses; exact string equality with the canonical form; one integration monitor on Decode.acs keys.'
LEVEL_RULE = (
    "common.icao / pyModeS.icao / adsb.icao / allcall.icao called on frames built forward for every DF 0..31, both lengths, "
    "with a chosen address (AA field for DF11/17/18; AP = parity XOR address for DF0/4/5/16/20/21; interrogator overlay for "
    "DF11), random payload, upper/lower/mixed hex case. Oracle: address recovered exactly, None for other formats, same "
    "*string* for the same transponder across formats and cases, one aircraft-table key for DF17+DF20 of one address. "
    "Non-trivial = address not 0; distinct = distinct frame hashes."
)
EXHAUSTIVE_SUBDOMAINS = ["DF 0..31 x {56,112} bits x {upper,lower,mixed} for structured addresses (single-bit, all-ones, zero)"]
ASSUMPTIONS = ["canonical form = the string icao() returns for an upper-case DF20 frame of the same address (%06X)"]
REQUIRED = ["df%d" % d for d in range(32)] + ["distinct_messages_pushed_through_by_4_threads", "ap_text_echoed_in_payload", "ap_field_boundary_value", "literal_structured_strings", "table_replies_of_strangers", "table_first_heard_by_tc0", "table_identical_repeats_for_minutes", "table_two_aircraft_position_frames_kept_apart", "table_through_the_live_loop", "table_one_alive_through_replies_one_silent", "table_two_trackers_alive", "table_after_thousands_of_evictions", "table_identical_replies_two_aircraft", "case_upper", "case_lower", "case_mixed", "len56", "len112", "table_one_key",
                                              "allcall_rejects", "df_none"]

AP = (0, 4, 5, 16, 20, 21)
AA = (11, 17, 18)


def m_icao(ctx, case):
    import pyModeS as pms
    from pyModeS import adsb
    from pyModeS.decoder import allcall
    rng = ctx.rng
    df, n, addr = case["df"], case["n"], case["addr"]
    body = int(case["body"], 16) & ((1 << (n - 29)) - 1)
    if df in AA:
        # CA/CF(3) + AA(24) + rest
        rest_bits = n - 29 - 27
        body = ((body >> (n - 29 - 3)) << (n - 29 - 3)) | (addr << rest_bits) | (body & ((1 << rest_bits) - 1))
    if case.get("echo") is not None and df in AP:
        # address chosen so that the text of the AP field also occurs inside the payload
        h0 = "%0*X" % (n // 4, bits.downlink(df, body, n, 0, 0))
        p0 = case["echo"] % (n // 4 - 11)
        addr = int(h0[-6:], 16) ^ int(h0[p0:p0 + 6], 16)
        ctx.hit("ap_text_echoed_in_payload")
    if case.get("apval") is not None and df in AP:
        # address chosen so that the transmitted AP FIELD is a boundary pattern (all zero, all one, one bit, ...)
        addr = (bits.downlink(df, body, n, 0, 0) & 0xFFFFFF) ^ case["apval"]
        ctx.hit("ap_field_boundary_value")
    f = bits.downlink(df, body, n, addr, case.get("ic", 0))
    if case.get("literal"):
        # ANY hex string of the right length is a legal address/parity frame of SOME transponder (address = parity XOR AP):
        # strings with internal structure (periodic, mirrored, two equal halves) are taken literally
        f = int(case["literal"], 16)
        n = 4 * len(case["literal"])
        df = min(f >> (n - 5), 24)
        if df in AP:
            addr = bits.parity(f >> 24, n) ^ (f & 0xFFFFFF)
        elif df in AA:
            addr = (f >> (n - 32)) & 0xFFFFFF
        ctx.hit("literal_structured_strings")
    hx = bits.tohex(f, n, case["hexcase"], rng)
    if case.get("echo") is not None and df in AP and hx[-6:].upper() not in hx[:-6].upper():
        raise AssertionError("echo construction failed")
    exp = "%06X" % addr if df in AA or df in AP else None
    ctx.hit("df%d" % df)
    ctx.hit("case_" + case["hexcase"])
    ctx.hit("len%d" % n)
    res = []
    for nm, fn in (("common.icao", pms.common.icao), ("pyModeS.icao", pms.icao), ("adsb.icao", adsb.icao)):
        r = call(fn, hx)
        ctx.ev()
        res.append(r)
        if r[0] != "ok":
            ctx.violation("icao-raises", frame=hx, api=nm, observed=r[1:])
            continue
        v = r[1]
        if exp is None:
            ctx.hit("df_none")
            if v is not None:
                ctx.violation("icao-returns-address-for-other-format", frame=hx, df=df, observed=v)
        elif v is None or not isinstance(v, str) or len(v) != 6:
            ctx.violation("icao-wrong-address", frame=hx, df=df, expected=exp, observed=v)
        else:
            try:
                same_value = int(v, 16) == addr
            except ValueError:
                same_value = False
            if not same_value:
                ctx.violation("icao-wrong-address", frame=hx, df=df, expected=exp, observed=v)
            elif v != exp:
                key = "aa-slice-keeps-input-case" if (df in AA and case["hexcase"] != "upper" and v.upper() == exp) else "icao-not-canonical"
                ctx.violation(key, frame=hx, df=df, expected=exp, observed=v, api=nm)
    r = call(allcall.icao, hx)
    ctx.ev()
    if df == 11:
        if r != res[0]:
            ctx.violation("allcall-icao-differs", frame=hx, observed=r, common=res[0])
    else:
        ctx.hit("allcall_rejects")
        if not (r[0] == "exc" and r[1] == "RuntimeError"):
            ctx.violation("allcall-icao-accepts-other-df", frame=hx, df=df, observed=r)
    if addr:
        ctx.nontrivial(("i", hx))
    if ctx.rng.random() < 0.0003:
        ctx.sample({"frame": hx, "df": df, "address": exp, "icao": res[0][1]})


def m_table(ctx, case):
    """same transponder heard as DF17 then DF20/21 -> one aircraft-table key, Comm-B attaches"""
    import io, contextlib
    with contextlib.redirect_stdout(io.StringIO()):
        from pyModeS.streamer.decode import Decode
    rng = ctx.rng
    addr = case["addr"]
    me = (4 << 51) | (rng.fill(3) << 48) | int(case["cs"], 16)  # TC4 identification
    if rng.random() < 0.5:
        # the aircraft is first heard through ANY extended squitter: every type code 0..31 (0 = "no position information",
        # reserved codes too) with an arbitrary payload files it under its address
        tc_ = rng.choice((0, 0, rng.randrange(32)))
        me = (tc_ << 51) | rng.fill(51)
        ctx.hit("table_first_heard_by_tc%d" % tc_)
    # (DF17 with any capability value, DF18 with any control field - anonymous / TIS-B / ADS-R addresses are addresses too)
    a = bits.tohex(bits.es_frame(rng.choice((17, 17, 18, 18)), rng.choice((5, rng.randrange(8))), addr, me), 112, case["hexcase"], rng)
    b = bits.tohex(bits.commb_frame(case["df"], rng.fill(27), rng.fill(56), addr), 112, case["hexcase2"], rng)
    d = Decode()
    r = call(d.process_raw, [100.0], [a], [101.0], [b], 102.0)
    ctx.ev()
    if r[0] != "ok":
        ctx.violation("process_raw-raises", frames=[a, b], observed=r[1:])
        return
    keys = list(d.acs.keys())
    lower = case["hexcase"] != "upper"
    if len(keys) != 1:
        ctx.violation("table-splits-one-transponder", frames=[a, b], keys=keys)
    elif d.acs[keys[0]].get("t") != 101.0:
        try:
            k_is_noncanon = keys[0] != "%06X" % addr and int(keys[0], 16) == addr
        except Exception:
            k_is_noncanon = False
        ctx.violation("aa-slice-keeps-input-case" if (lower and k_is_noncanon) else "commb-not-attached",
                      frames=[a, b], keys=keys, t=d.acs[keys[0]].get("t"))
    else:
        ctx.hit("table_one_key")
    ctx.nontrivial(("t", a, b))
    if case.get("twin") and case.get("df") in (20, 21):
        # through the live loop (Decode.run, fed by a pipe): one chunk with two squitters of X and three Comm-B replies - of a
        # stranger, of X's one-bit twin (not heard before) and, last, of X - is merged under X's key with the LAST reply's stamp
        import time as _t

        class _Stop(BaseException):
            pass
        now = _t.time()
        addr_y = addr ^ (1 << rng.randrange(24))
        ax = "%028X" % bits.es_frame(17, 5, addr, me)
        chunk = {"adsb_ts": [now - 3.0, now - 2.0], "adsb_msg": [ax, ax],
                 "commb_ts": [now - 1.5, now - 1.2, now - 1.0],
                 "commb_msg": ["%028X" % bits.commb_frame(case["df"], rng.fill(27), rng.fill(56), a_) for a_ in (rng.fill(24), addr_y, addr)]}

        class _Raw:
            def __init__(self):
                self.q, self.idle = [chunk], 0

            def poll(self):
                if self.q:
                    return True
                self.idle += 1
                if self.idle > 2:
                    raise _Stop()
                return False

            def recv(self):
                return self.q.pop(0)

        class _Sink:
            def __init__(self):
                self.items = []

            def send(self, x):
                self.items.append(x)

            put = send
        d = Decode()
        q_ = _Sink()
        try:
            d.run(_Raw(), _Sink(), q_)
        except _Stop:
            pass
        ctx.ev()
        kx = "%06X" % addr
        if q_.items or set(d.acs) != {kx} or d.acs[kx].get("t") != now - 1.0:
            ctx.violation("live-loop-does-not-merge-reply-under-its-address", chunk=chunk, keys=sorted(d.acs), t=d.acs.get(kx, {}).get("t"),
                          expected_t=now - 1.0, exceptions=repr(q_.items)[:200])
        ctx.hit("table_through_the_live_loop")
    if case.get("twin"):
        # two aircraft a few miles apart both send position squitters (A an even frame, B an odd one a second later): whatever a
        # record keeps - frames, pairs, a position - comes from frames that carry ITS address; B has no fix from one frame
        from ..ref import cpr as _cpr
        addr_b = addr ^ (1 << rng.randrange(24))
        la, lo = rng.uniform(-60, 60), rng.uniform(-170, 170)
        fr_ = []
        for i_, (ad_, dl) in enumerate(((addr, 0.0), (addr_b, 0.05))):
            yz, xz = _cpr.encode(la + dl, lo + dl, i_, False)[:2]
            fr_.append("%028X" % bits.es_frame(17, 5, ad_, _cpr.me_airborne(11, 0, 0, 0x5A5, 0, i_, yz, xz)))
        d = Decode()
        r = call(d.process_raw, [100.0, 101.0], fr_, [], [], 101.5)
        ctx.ev()
        ka, kb = "%06X" % addr, "%06X" % addr_b
        bad_ = None
        if r[0] != "ok" or set(d.acs) != {ka, kb}:
            bad_ = "keys"
        else:
            for key_, rec_ in d.acs.items():
                def _strs(v_):
                    if isinstance(v_, str):
                        yield v_
                    elif isinstance(v_, (list, tuple)):
                        for w_ in v_:
                            yield from _strs(w_)
                    elif isinstance(v_, dict):
                        for w_ in v_.values():
                            yield from _strs(w_)
                for v_ in _strs(rec_):
                    if len(v_) == 28 and v_.upper() in (fr_[0], fr_[1]) and v_.upper()[2:8] != key_:
                        bad_ = "record %s keeps a frame of %s" % (key_, v_.upper()[2:8])
                if rec_.get("lat") is not None:
                    bad_ = bad_ or "record %s has a position from one frame of its own" % key_
        if bad_:
            ctx.violation("record-built-from-another-aircrafts-frames", frames=fr_, what=bad_, keys=sorted(d.acs))
        ctx.hit("table_two_aircraft_position_frames_kept_apart")
    if case.get("twin"):
        # X is heard first, then Y; from then on only X's Comm-B replies arrive (every 20 s for two minutes): Y times out on its
        # own clock - X, still alive at the head of the table, must not shield it - and a late reply of Y finds no key
        addr_y = addr ^ (1 << rng.randrange(24))
        ax = "%028X" % bits.es_frame(17, 5, addr, me)
        ay = "%028X" % bits.es_frame(17, 5, addr_y, me)
        d = Decode()
        ok_ = call(d.process_raw, [100.0], [ax], [], [], 100.5)[0] == "ok" and call(d.process_raw, [101.0], [ay], [], [], 101.5)[0] == "ok"
        for t_ in range(120, 221, 20):
            bx = "%028X" % bits.commb_frame(case["df"], rng.fill(27), rng.fill(56), addr)
            ok_ = ok_ and call(d.process_raw, [], [], [float(t_)], [bx], t_ + 0.5)[0] == "ok"
        by = "%028X" % bits.commb_frame(case["df"], rng.fill(27), rng.fill(56), addr_y)
        ok_ = ok_ and call(d.process_raw, [], [], [222.0], [by], 222.5)[0] == "ok"
        ctx.ev(9)
        kx, ky = "%06X" % addr, "%06X" % addr_y
        if not ok_ or set(d.acs) != {kx} or d.acs[kx].get("t") != 220.0:
            ctx.violation("silent-aircraft-shielded-by-one-kept-alive-through-replies", frames=[ax, ay], keys=sorted(d.acs), expected=[kx],
                          t_x=d.acs.get(kx, {}).get("t"), t_y=d.acs.get(ky, {}).get("t"))
        ctx.hit("table_one_alive_through_replies_one_silent")
    if case.get("twin"):
        # an identification squitter is the SAME string every 5 s for the whole flight: a transponder heard only through
        # byte-identical repeats (3 minutes of them, also seen twice per batch through two receivers) stays in the table
        # under its address and its Comm-B reply attaches
        d = Decode()
        ok_ = True
        for t_ in range(100, 281, 20):
            r = call(d.process_raw, [float(t_), t_ + 0.002], [a, a], [], [], t_ + 1.0)
            ok_ = ok_ and r[0] == "ok" and len(d.acs) == 1      # heard a second ago: listed after every single call
        r = call(d.process_raw, [], [], [282.0], [b], 283.0)
        ctx.ev(11)
        keys = list(d.acs.keys())
        if not ok_ or r[0] != "ok" or len(keys) != 1 or d.acs[keys[0]].get("t") != 282.0:
            ctx.violation("aircraft-heard-through-identical-repeats-lost", frames=[a, b], keys=keys, t=(d.acs[keys[0]].get("t") if keys else None))
        # ... then nothing is heard for two minutes (an idle call and a call with a stranger's Comm-B reply only): the aircraft
        # is gone; its next squitter - the first message processed after that - files it again and its reply attaches
        r1 = call(d.process_raw, [], [], [], [], 400.0)
        gone = len(d.acs) == 0
        r2 = call(d.process_raw, [401.0], [a], [], [], 401.5)
        back = list(d.acs.keys())
        r3 = call(d.process_raw, [], [], [402.0], [b], 402.5)
        ctx.ev(3)
        if r1[0] != "ok" or r2[0] != "ok" or r3[0] != "ok" or not gone or len(back) != 1 or list(d.acs.keys()) != back or d.acs[back[0]].get("t") != 402.0:
            ctx.violation("aircraft-not-filed-again-after-eviction", frames=[a, b], gone_after_idle_call=gone, keys_after_next_squitter=back,
                          keys_after_reply=list(d.acs.keys()), t=(d.acs[back[0]].get("t") if back and back[0] in d.acs else None))
        ctx.hit("table_identical_repeats_for_minutes")
    if case.get("twin"):
        # two transponders answering with bit-identical content (same header, same MB) in one batch: the address lives in
        # the AP field only, so each reply still has to end up under its own aircraft
        addr2 = addr ^ (1 << rng.randrange(24))
        hdr, mb = rng.fill(27), rng.choice((0, rng.fill(56)))
        a1 = "%028X" % bits.es_frame(17, 5, addr, me)
        a2 = "%028X" % bits.es_frame(17, 5, addr2, me)
        b1 = "%028X" % bits.commb_frame(case["df"], hdr, mb, addr)
        b2 = "%028X" % bits.commb_frame(case["df"], hdr, mb, addr2)
        if case["hexcase2"] == "lower":
            b1, b2 = b1.lower(), b2.lower()
        d = Decode()
        r = call(d.process_raw, [100.0, 100.2], [a1, a2], [101.0, 101.5], [b1, b2], 102.0)
        ctx.ev()
        if r[0] != "ok":
            ctx.violation("process_raw-raises", frames=[a1, a2, b1, b2], observed=r[1:])
            return
        k1, k2 = "%06X" % addr, "%06X" % addr2
        got = {k: v.get("t") for k, v in d.acs.items()}
        if got != {k1: 101.0, k2: 101.5}:
            ctx.violation("commb-attached-to-wrong-aircraft", frames=[a1, a2, b1, b2], expected={k1: 101.0, k2: 101.5}, observed=got)
        ctx.hit("table_identical_replies_two_aircraft")
    if case.get("twin"):
        # two trackers alive at the same time (one per receiver): each has its OWN table
        addr3 = addr ^ (1 << rng.randrange(24))
        d1 = Decode()
        a1 = "%028X" % bits.es_frame(17, 5, addr, me)
        call(d1.process_raw, [100.0], [a1], [], [], 100.5)
        d2 = Decode()
        a3 = "%028X" % bits.es_frame(17, 5, addr3, me)
        call(d2.process_raw, [100.2], [a3], [], [], 100.6)
        b1 = "%028X" % bits.commb_frame(case["df"], rng.fill(27), rng.fill(56), addr)
        r1 = call(d2.process_raw, [], [], [101.0], [b1], 101.5)      # receiver 2 hears a reply of receiver 1's aircraft only
        r2 = call(d1.process_raw, [], [], [101.2], [b1], 101.6)
        ctx.ev(4)
        k1, k3 = "%06X" % addr, "%06X" % addr3
        ok = r1[0] == "ok" and r2[0] == "ok" and set(d1.acs) == {k1} and set(d2.acs) == {k3} and d1.acs[k1].get("t") == 101.2 \
            and d2.acs[k3].get("t") == 100.2
        if not ok:
            ctx.violation("two-trackers-share-or-lose-state", tracker1=sorted(d1.acs), tracker2=sorted(d2.acs), expected=[[k1], [k3]],
                          t1=d1.acs.get(k1, {}).get("t"), t2=d2.acs.get(k3, {}).get("t"))
        ctx.hit("table_two_trackers_alive")
    if case.get("churn"):
        # a long-running tracker: thousands of aircraft come and time out on ONE Decode object; afterwards a Comm-B reply of
        # an aircraft that has timed out must not create or touch an entry, and one of a freshly heard aircraft must attach
        d = Decode()
        t = 1000.0
        gone = []
        for rnd in range(case["churn"]):
            ads, ts = [], []
            base_ = rng.getrandbits(23) << 1
            for j in range(case["per_round"]):
                a_ = (0x400000 + base_ + 2 * j + rnd * 7919 * 2) & 0xFFFFFF
                ads.append("%028X" % bits.es_frame(17, 5, a_, me))
                ts.append(t + j * 1e-4)
                gone.append(a_)
            r = call(d.process_raw, ts, ads, [], [], t + 1.0)
            ctx.ev()
            if r[0] != "ok":
                ctx.violation("process_raw-raises", frames=ads[:2], observed=r[1:])
                return
            t += 100.0       # everything heard so far times out before the next round
        fresh = 0x4B0001
        a1 = "%028X" % bits.es_frame(17, 5, fresh, me)
        old_addr = gone[len(gone) // 2]
        b_old = "%028X" % bits.commb_frame(case["df"], rng.fill(27), rng.fill(56), old_addr)
        b_new = "%028X" % bits.commb_frame(case["df"], rng.fill(27), rng.fill(56), fresh)
        r = call(d.process_raw, [t], [a1], [t + 0.5, t + 0.6], [b_old, b_new], t + 1.0)
        ctx.ev()
        keys = set(d.acs.keys())
        ok = r[0] == "ok" and "%06X" % old_addr not in keys and "%06X" % fresh in keys and d.acs["%06X" % fresh].get("t") == t + 0.6
        if not ok:
            ctx.violation("table-wrong-after-many-evictions", evicted_before=len(gone), old="%06X" % old_addr, fresh="%06X" % fresh,
                          keys=sorted(keys)[:6], fresh_t=d.acs.get("%06X" % fresh, {}).get("t"), expected_t=t + 0.6, observed=r[:2])
        ctx.hit("table_after_thousands_of_evictions")
    if case.get("stranger"):
        # replies of transponders that are NOT in the table (addresses a few bits away from the tracked one, also with the
        # register number folded into the address as a data-parity overlay would do) carrying valid register contents:
        # a Comm-B reply is merged only under its own, already present key - here nothing may change
        from . import C12
        d = Decode()
        a1 = "%028X" % bits.es_frame(17, 5, addr, me)
        r0 = call(d.process_raw, [100.0], [a1], [], [], 100.5)
        before = {k: dict(v) for k, v in d.acs.items()}
        ts, ms = [], []
        for j, reg in enumerate(("BDS10", "BDS17", "BDS20", "BDS30", "BDS40", "BDS44", "BDS45", "BDS50", "BDS60")):
            code = int(reg[3:], 16)
            for other in (addr ^ (code << 16), addr ^ code, addr ^ (1 << rng.randrange(24))):
                if other == addr:
                    continue
                mb, ac = C12.BUILD[reg](rng, case["df"])
                hdr = rng.fill(27) if ac is None else ((rng.fill(14) << 13) | ac)
                hx_ = "%028X" % bits.commb_frame(case["df"], hdr, mb, other & 0xFFFFFF)
                ms.append(hx_.lower() if case["hexcase2"] == "lower" else hx_)
                ts.append(101.0 + 0.01 * len(ts))
        r = call(d.process_raw, [], [], ts, ms, 102.0)
        ctx.ev()
        if r[0] != "ok":
            ctx.violation("process_raw-raises", frames=[a1] + ms[:3], observed=r[1:])
            return
        after = {k: dict(v) for k, v in d.acs.items()}
        if set(after) != set(before) or any(after[k].get("t") != before[k].get("t") for k in before):
            changed = {k: {f: (before.get(k, {}).get(f), v) for f, v in after[k].items() if before.get(k, {}).get(f) != v} for k in after}
            ctx.violation("commb-of-unknown-transponder-merged", tracked="%06X" % addr, changed=repr(changed)[:400], replies=ms[:4])
        ctx.hit("table_replies_of_strangers")


def m_volthreads(ctx, case):
    """far more distinct frames than a 17-bit bounded memo holds through icao() and hex2bin(), from 4 threads at once"""
    from .. import volume
    import pyModeS

    def mk(r):
        df = r.choice((17, 17, 18, 11, 0, 4, 5, 16, 20, 21, r.randrange(32)))
        n = 112 if df >= 16 else 56
        return "%0*X" % (n // 4, (df << (n - 5)) | r.getrandbits(n - 5))

    def oracle(name, msg):
        n = len(msg) * 4
        x = int(msg, 16)
        if name == "hex2bin":
            return format(x, "0%db" % n)
        df = min(x >> (n - 5), 24)
        if df in (11, 17, 18):
            return "%06X" % ((x >> (n - 32)) & 0xFFFFFF)
        if df in (0, 4, 5, 16, 20, 21):
            return "%06X" % bits.polymod(x, n)
        return None
    volume.run(ctx, [("icao", pyModeS.icao), ("hex2bin", pyModeS.common.hex2bin)], mk, oracle, total=case["total"])


NO_OBSERVE = ("volthreads",)
MONITORS = {"volthreads": m_volthreads, "icao": m_icao, "table": m_table}


def cases(ctx):
    rng = ctx.rng
    quick = ctx.tier == "quick"
    i = 0
    if ctx.mine(9):
        yield "volthreads", {"total": 144000 if quick else 300000}
    structured = [0, 0xFFFFFF, 0xABCDEF, 0xFEDCBA, 0x00000A] + [1 << b for b in range(24)]
    for df in range(32):
        for n in (56, 112):
            for hc in ("upper", "lower", "mixed"):
                for j, addr in enumerate(structured):
                    if ctx.mine(i):
                        yield "icao", {"df": df, "n": n, "addr": addr, "body": "%X" % rng.fill(83), "hexcase": hc,
                                       "ic": rng.randrange(80) if j % 2 else 0}
                    i += 1
    for k in range(ctx.share(600000 if quick else 10000000)):
        df = rng.randrange(32) if k % 3 == 0 else rng.choice(AP + AA)
        n = rng.choice((56, 112)) if k % 4 == 0 else bits.df_len(df)
        yield "icao", {"df": df, "n": n, "addr": rng.fill(24), "body": "%X" % rng.fill(83),
                       "hexcase": rng.choice(("upper", "upper", "lower", "mixed")), "ic": rng.choice((0, 0, rng.randrange(80)))}
    for k in range(ctx.share(8000 if quick else 100000)):
        df = rng.choice(AP)
        yield "icao", {"df": df, "n": bits.df_len(df), "addr": 0, "body": "%X" % rng.fill(83), "echo": rng.randrange(1000),
                       "hexcase": rng.choice(("upper", "upper", "lower", "mixed")), "ic": 0}
    apvals = [0, 0xFFFFFF, 0xFFFFFE, 0x7FFFFF, 0x800000, 1, 0xAAAAAA, 0x555555] + [1 << b_ for b_ in range(24)]
    for k in range(ctx.share(4000 if quick else 40000)):
        df = rng.choice(AP)
        yield "icao", {"df": df, "n": rng.choice((bits.df_len(df), bits.df_len(df), 56, 112)), "addr": 0, "body": "%X" % rng.fill(83),
                       "apval": apvals[k % len(apvals)], "hexcase": rng.choice(("upper", "lower", "mixed")), "ic": 0}
    for k in range(ctx.share(6000 if quick else 100000)):
        L = rng.choice((14, 28, 28))
        kind = k % 4
        if kind == 0:      # periodic
            per = rng.choice([p_ for p_ in (1, 2, 4, 7, 14) if L % p_ == 0])
            unit = "%0*X" % (per, rng.getrandbits(4 * per))
            lit = unit * (L // per)
        elif kind == 1:    # two equal halves with a random first byte carrying a DF of interest
            half = "%02X" % ((rng.choice(AP + AA) << 3) | rng.randrange(8)) + "%0*X" % (L // 2 - 2, rng.getrandbits(4 * (L // 2 - 2)))
            lit = half * 2
        elif kind == 2:    # mirrored
            half = "%0*X" % (L // 2, rng.getrandbits(2 * L))
            lit = half + half[::-1]
        elif rng.random() < 0.3:   # shifted generator polynomial (the division register runs empty half-way) behind a DF of interest
            w_ = 4 * L
            x_ = ((rng.choice(AP) << 3) << (w_ - 8)) ^ (bits.GEN << rng.randrange(0, w_ - 32)) ^ rng.choice((0, 0, bits.GEN, rng.getrandbits(24)))
            lit = "%0*X" % (L, x_ & ((1 << w_) - 1))
        else:              # a short motif embedded repeatedly
            mot = "%06X" % rng.getrandbits(24)
            lit = ("%02X" % ((rng.choice(AP) << 3) | rng.randrange(8)) + mot * 5)[:L]
        yield "icao", {"df": 0, "n": 4 * L, "addr": 0, "body": "0", "literal": lit, "hexcase": rng.choice(("upper", "upper", "lower", "mixed")), "ic": 0}
    for k in range(ctx.share(16 if quick else 64)):
        yield "table", {"addr": rng.getrandbits(24) | 0xA00000, "cs": "%X" % rng.getrandbits(48), "df": rng.choice((20, 21)), "hexcase": "upper",
                        "hexcase2": "upper", "churn": rng.choice((9, 12, 18)), "per_round": rng.choice((500, 520, 700))}
    for k in range(ctx.share(3000 if quick else 20000)):
        yield "table", {"addr": rng.fill(24) | 0xA00000, "cs": "%X" % rng.fill(48), "df": rng.choice((20, 21)),
                        "hexcase": "upper" if k % 2 == 0 else rng.choice(("lower", "mixed")), "hexcase2": rng.choice(("upper", "lower")), "twin": k % 2 == 0, "stranger": k % 4 == 1}
