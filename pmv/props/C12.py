"""C12 - BDS register inference is total, format-sound and complete on plausible data."""
from __future__ import annotations

import math

from ..probe import call
from ..ref import alt as ralt
from ..ref import bits, isa
from ..ref import commb as rc

LEVEL = "exploration"
BRANCH_TARGETS = ['pyModeS.decoder.bds:infer', 'pyModeS.decoder.bds:is50or60', 'pyModeS.decoder.bds.bds10:is10', 'pyModeS.decoder.bds.bds17:is17', 'pyModeS.decoder.bds.bds20:is20', 'pyModeS.decoder.bds.bds30:is30', 'pyModeS.decoder.bds.bds40:is40', 'pyModeS.decoder.bds.bds44:is44', 'pyModeS.decoder.bds.bds45:is45', 'pyModeS.decoder.bds.bds50:is50', 'pyModeS.decoder.bds.bds60:is60', 'pyModeS.py_common:wrongstatus']
TECHNIQUE = 'runtime monitoring: relation monitor (infer vs isXX), forward register builders for completeness, one-rule-violation builders for soundness, independent recomputation of is50or60'
LEVEL_TEXT = 'Exploration; out-of-envelope contents are deliberately not judged, thresholds are judged at their boundary values; 2^56 payloads sampled with boundary direction.'
LEVEL_RULE = (
    "bds.infer(msg, mrar) / isXX / is50or60 called on 112-bit messages: (T0) totality on random frames of every DF and the "
    "recorded sample data; (T1) relation infer == EMPTY | DF17 type-code map | comma-joined sorted set of the isXX that hold; "
    "(T2) register contents built forward with status-consistent fields inside the documented envelope (incl. the envelope "
    "boundary) must be among the candidates; (T3) a payload violating exactly one status / reserved-bit / identifier rule is "
    "never reported as that register; (T4) is50or60 recomputed from independently decoded fields and the analytic ISA "
    "(cases within 1 kt of a decision threshold are ambiguous). Distinct = distinct message hashes."
)
EXHAUSTIVE_SUBDOMAINS = ["each status rule x each register (one violated rule at a time)", "DF17 type codes 0..31"]
ASSUMPTIONS = ["out-of-envelope values are not judged (only acceptance inside the envelope is required), with one exception (T5): a DF20 "
               "BDS 6,0-shaped payload whose IAS is >= 60 kt (three times the documented 20 kt tolerance) away from the Mach-consistent "
               "value at the altitude the frame itself reports must not be inferred as BDS60",
               "T1 observes the isXX predicates of the repository itself; their soundness/completeness is what T2/T3 judge",
               "DF20 BDS 6,0 contents are generated with IAS within 10 kt of the Mach-consistent value at the frame's altitude"]
REQUIRED = ["same_payload_under_another_header_first", "t0_random", "t1_df17", "t1_commb", "t1_empty", "t4_none", "t4_decided50", "t4_decided60", "t4_both", "t5_alt_le0", "t5_metric_header_altitude", "t6_within_0.3kt_inside_the_tolerance", "t6_within_0.3kt_outside_the_tolerance", "t4_reference_within_ulps_of_a_candidate", "t4_mach_zero_ias_exactly_20_decided", "t4_available_ias_of_0_to_2_kt_with_slow_reference", "t4_df20_header_altitude_consistent_with_mach_and_ias",
            "t5_alt_pos"] + \
           ["t2_BDS%s" % r for r in ("10", "17", "20", "30", "40", "44", "45", "50", "60")] + \
           ["t3_BDS%s" % r for r in ("10", "17", "20", "30", "40", "44", "45", "50", "60")]

put = rc.put
ALL_NOMRAR = ["BDS10", "BDS17", "BDS20", "BDS30", "BDS40", "BDS50", "BDS60"]
ALL_MRAR = ["BDS10", "BDS17", "BDS20", "BDS30", "BDS40", "BDS44", "BDS45", "BDS50", "BDS60"]
TCMAP = {**{t: "BDS08" for t in range(1, 5)}, **{t: "BDS06" for t in range(5, 9)}, **{t: "BDS05" for t in range(9, 19)},
         19: "BDS09", 20: "BDS05", 21: "BDS05", 22: "BDS05", 28: "BDS61", 29: "BDS62", 31: "BDS65"}


def isfuncs():
    from pyModeS.decoder.bds import bds10, bds17, bds20, bds30, bds40, bds44, bds45, bds50, bds60
    return {"BDS10": bds10.is10, "BDS17": bds17.is17, "BDS20": bds20.is20, "BDS30": bds30.is30, "BDS40": bds40.is40,
            "BDS44": bds44.is44, "BDS45": bds45.is45, "BDS50": bds50.is50, "BDS60": bds60.is60}


def commb_hex(ctx, mb, df=None, altcode=None):
    rng = ctx.rng
    df = df or rng.choice((20, 21))
    hdr = rng.fill(27)
    if altcode is not None:
        hdr = (hdr & ~0x1FFF) | altcode
    hx = "%028X" % bits.commb_frame(df, hdr, mb, rng.fill(24))
    return hx.lower() if rng.random() < 0.1 else hx


# ---------------------------------------------------------------- forward builders of valid register contents
def sfield(rng, mb, sb, gb, msb, lsb, lo, hi, force=None):
    """place a (status, [sign], value) field: status 0 -> all zero, status 1 -> value in [lo,hi] (two's complement if gb)"""
    st = rng.random() < 0.8 if force is None else force
    w = lsb - msb + 1
    if not st:
        mb = put(mb, sb, sb, 0)
        if gb:
            mb = put(mb, gb, gb, 0)
        return put(mb, msb, lsb, 0), None
    v = rng.choice((lo, hi, rng.randint(lo, hi), rng.randint(lo, hi)))
    mb = put(mb, sb, sb, 1)
    if gb:
        mb = put(mb, gb, gb, 1 if v < 0 else 0)
        mb = put(mb, msb, lsb, v & ((1 << w) - 1))
    else:
        mb = put(mb, msb, lsb, v)
    return mb, v


def b50(rng, force=None):
    while True:
        mb = 0
        mb, roll = sfield(rng, mb, 1, 2, 3, 11, -284, 284, force)
        mb, trk = sfield(rng, mb, 12, 13, 14, 23, -512, 511, force)
        mb, gs = sfield(rng, mb, 24, None, 25, 34, 0, 300, force)
        mb, rt = sfield(rng, mb, 35, 36, 37, 45, -256, 255, force)
        mb, tas = sfield(rng, mb, 46, None, 47, 56, 0, 300, force)
        if gs is not None and tas is not None and abs(tas - gs) > 100:
            tas = max(0, min(300, gs + rng.choice((-100, 100, rng.randint(-100, 100)))))
            if abs(tas - gs) > 100:
                continue
            mb = put(mb, 47, 56, tas)
        if mb:
            return mb


def b60(rng, df, force=None):
    """returns (mb, altcode13 or None)"""
    while True:
        mb = 0
        mb, h = sfield(rng, mb, 1, 2, 3, 12, -512, 511, force)
        mb, ias = sfield(rng, mb, 13, None, 14, 23, 0, 500, force)
        mb, mach = sfield(rng, mb, 24, None, 25, 34, 0, 250, force)
        mb, vb = sfield(rng, mb, 35, 36, 37, 45, -187, 187, force)
        mb, vi = sfield(rng, mb, 46, 47, 48, 56, -187, 187, force)
        altcode = None
        if df == 20:
            if ias is not None and mach is not None:
                # make IAS consistent with Mach at a Q-coded altitude (within 10 kt), or send "altitude unknown"
                if rng.random() < 0.2:
                    # "altitude unknown": the all-zero code, or a Gillham code with an illegal C1 C2 C4 pattern (000 / 101 / 111) - no
                    # altitude, so no Mach/IAS cross-check either
                    altcode = rng.choice((0, 0, rng.choice(_illegal_gillham())))
                else:
                    n = rng.choice((rng.randrange(40, 1800), rng.randrange(1800, 2048), 2047, rng.randrange(0, 41)))   # below sea level (-1000 ft) up to the top of the Q range (50175 ft)
                    altft = n * 25 - 1000
                    altcode = ralt.q_code13(n)
                    if rng.random() < 0.3:
                        # the same kind of register under a Gillham (100-ft) altitude code, as older encoders send it
                        altft = rng.choice((rng.randrange(0, 451), rng.randrange(451, 601), rng.randrange(-12, 0))) * 100
                        altcode = ralt.gillham_code13(altft)
                    elif rng.random() < 0.2:
                        # a metric header altitude (M = 1: 12 bits of metres); the bit in the Q position is then an ordinary value bit
                        nm = rng.choice((rng.randrange(1, 4096), rng.randrange(1, 4096) | 16, 4095))
                        altft = nm * 3.28084
                        altcode = ralt.m_code13(nm)
                    m = rng.choice((0, 250, rng.randint(40, 250)))
                    cas = isa.mach2cas(m * 2.048 / 512.0, altft * isa.FT) / isa.KTS
                    # ... within 10 kt mostly, and up to 18.4 kt (the rule allows 20; one knot is left for the ISA constants)
                    ias = int(round(cas + (rng.uniform(-9, 9) if rng.random() < 0.6 else rng.choice((-1, 1)) * rng.uniform(15, 18.4))))
                    if not 0 <= ias <= 500:
                        continue
                    mb = put(put(mb, 25, 34, m), 14, 23, ias)
            else:
                altcode = rng.choice((0, ralt.q_code13(rng.randrange(2048))))
        if mb:
            return mb, altcode


_ILLEGAL = []


def _illegal_gillham():
    if not _ILLEGAL:
        _ILLEGAL.extend(c for c, v in ralt.altitude_table().items() if v is None and c != 0)
    return _ILLEGAL


def b40(rng):
    while True:
        mb = 0
        mb, _ = sfield(rng, mb, 1, None, 2, 13, 0, 4095)
        mb, _ = sfield(rng, mb, 14, None, 15, 26, 0, 4095)
        mb, _ = sfield(rng, mb, 27, None, 28, 39, 0, 4095)
        mb, _ = sfield(rng, mb, 48, None, 49, 51, 0, 7)
        mb, _ = sfield(rng, mb, 54, None, 55, 56, 0, 3)
        if mb:
            return mb


def b44(rng):
    while True:
        mb = put(0, 1, 4, rng.randint(0, 4))
        st = rng.random() < 0.8
        if st:
            mb = put(put(put(mb, 5, 5, 1), 6, 14, rng.choice((0, 250, rng.randint(0, 250)))), 15, 23, rng.randrange(512))
        t = rng.choice((-320, 240, rng.randint(-320, 240)))  # *0.25 C in [-80, 60]
        mb = put(put(mb, 24, 24, 1 if t < 0 else 0), 25, 34, t & 1023)
        mb, _ = sfield(rng, mb, 35, None, 36, 46, 0, 2047)
        mb, _ = sfield(rng, mb, 47, None, 48, 49, 0, 3)
        mb, _ = sfield(rng, mb, 50, None, 51, 56, 0, 63)
        if mb:
            return mb


def b45(rng):
    while True:
        mb = 0
        for sb in (1, 4, 7, 10, 13):
            mb, _ = sfield(rng, mb, sb, None, sb + 1, sb + 2, 0, 3)
        if rng.random() < 0.8:
            t = rng.choice((-320, 240, rng.randint(-320, 240)))
            mb = put(put(put(mb, 16, 16, 1), 17, 17, 1 if t < 0 else 0), 18, 26, t & 511)
        mb, _ = sfield(rng, mb, 27, None, 28, 38, 0, 2047)
        mb, _ = sfield(rng, mb, 39, None, 40, 51, 0, 4095)
        if mb:
            return mb


def b10(rng):
    mb = put(rng.fill(56), 1, 8, 0x10)
    mb = put(mb, 10, 14, 0)
    ovc = rng.randrange(2)
    mb = put(mb, 15, 15, ovc)
    mb = put(mb, 17, 23, rng.randint(5, 127) if ovc else rng.randint(0, 4))
    return mb


def b17(rng):
    caps = rng.fill(24) | (1 << (24 - 7))  # BDS 2,0 capability
    return caps << 32


LEGAL6 = list(range(1, 27)) + [32] + list(range(48, 58))


def b20(rng):
    mb = 0x20 << 48
    if rng.random() < 0.05:
        return mb
    u = rng.random()
    if u < 0.12:
        # degenerate but legal identifications: blank (eight spaces), one repeated character, a short callsign padded with spaces
        ch = rng.choice(LEGAL6)
        n = rng.choice((0, 0, 1, 2, 8))
        for k in range(8):
            mb |= (ch if k < n else 32) << (42 - 6 * k)
        return mb
    for k in range(8):
        mb |= rng.choice(LEGAL6) << (42 - 6 * k)
    return mb


def b30(rng):
    mb = put(rng.fill(56), 1, 8, 0x30)
    mb = put(mb, 29, 30, rng.randint(0, 2))
    return put(mb, 16, 22, rng.randint(0, 47))


BUILD = {"BDS10": lambda r, df: (b10(r), None), "BDS17": lambda r, df: (b17(r), None), "BDS20": lambda r, df: (b20(r), None),
         "BDS30": lambda r, df: (b30(r), None), "BDS40": lambda r, df: (b40(r), None), "BDS44": lambda r, df: (b44(r), None),
         "BDS45": lambda r, df: (b45(r), None), "BDS50": lambda r, df: (b50(r), None), "BDS60": lambda r, df: b60(r, df)}

# status rules (status bit, first bit of field incl. sign, last bit) per register
STATUS_RULES = {
    "BDS40": [(1, 2, 13), (14, 15, 26), (27, 28, 39), (48, 49, 51), (54, 55, 56)],
    "BDS44": [(5, 6, 23), (35, 36, 46), (47, 48, 49), (50, 51, 56)],
    "BDS45": [(1, 2, 3), (4, 5, 6), (7, 8, 9), (10, 11, 12), (13, 14, 15), (16, 17, 26), (27, 28, 38), (39, 40, 51)],
    "BDS50": [(1, 2, 11), (12, 13, 23), (24, 25, 34), (35, 36, 45), (46, 47, 56)],
    "BDS60": [(1, 2, 12), (13, 14, 23), (24, 25, 34), (35, 36, 45), (46, 47, 56)],
}
RESERVED = {"BDS40": [(40, 47), (52, 53)], "BDS45": [(52, 56)], "BDS10": [(10, 14)], "BDS17": [(25, 56)]}


# ---------------------------------------------------------------- monitors
def m_t0(ctx, case):
    from pyModeS import bds
    IS = isfuncs()
    for hx in case["msgs"]:
        for mrar in (False, True):
            r = call(bds.infer, hx, mrar)
            ctx.ev()
            if r[0] != "ok":
                ctx.violation("infer-raises", frame=hx, mrar=mrar, observed=r[1:])
                continue
            x = int(hx, 16)
            df = min(x >> 107, 24)
            mbz = ((x >> 24) & ((1 << 56) - 1)) == 0
            if mbz:
                exp = "EMPTY"
                ctx.hit("t1_empty")
            elif df == 17 and ((x >> 75) & 31) in TCMAP:
                exp = TCMAP[(x >> 75) & 31]
                ctx.hit("t1_df17")
            elif df in (20, 21):
                names = ALL_MRAR if mrar else ALL_NOMRAR
                got = []
                ok = True
                for nm in names:
                    q = call(IS[nm], hx)
                    ctx.ev()
                    if q[0] != "ok" or not isinstance(q[1], (bool,)) and type(q[1]).__name__ != "bool_":
                        ctx.violation("isXX-raises-or-not-bool", frame=hx, register=nm, observed=repr(q[1:]))
                        ok = False
                    elif q[1]:
                        got.append(nm)
                if not ok:
                    continue
                exp = ",".join(sorted(got)) if got else None
                ctx.hit("t1_commb")
            else:
                ctx.hit("t0_random")
                continue  # only totality is stated for other formats
            if r[1] != exp:
                ctx.violation("infer-relation-broken", frame=hx, mrar=mrar, expected=exp, observed=r[1])
        ctx.hit("t0_random")
        ctx.nontrivial(("t0", hx))


def m_t2(ctx, case):
    from pyModeS import bds
    IS = isfuncs()
    reg = case["reg"]
    rng = ctx.rng
    for _ in range(case["n"]):
        df = rng.choice((20, 21))
        mb, altcode = BUILD[reg](rng, df)
        hx = commb_hex(ctx, mb, df, altcode)
        mrar = reg in ("BDS44", "BDS45") or rng.random() < 0.5
        if rng.random() < 0.5:
            # the same MB payload seen a moment earlier under ANOTHER header (other altitude code, other DF): not judged, it only
            # has to leave the verdict on the reply below alone
            other = commb_hex(ctx, mb, rng.choice((20, 21)), rng.choice((0, ralt.q_code13(rng.randrange(2048)), ralt.gillham_code13(rng.randrange(0, 451) * 100))))
            call(bds.infer, other, mrar)
            call(IS[reg], other)
            ctx.hit("same_payload_under_another_header_first")
        r = call(bds.infer, hx, mrar)
        q = call(IS[reg], hx)
        ctx.ev(2)
        if r[0] != "ok":
            ctx.violation("infer-raises", frame=hx, observed=r[1:])
        elif r[1] is None or reg not in str(r[1]).split(",") or q != ("ok", True):
            ctx.violation("valid-%s-not-reported" % reg, frame=hx, mb="%014X" % mb, infer=r[1], isXX=q[1:], df=df)
        ctx.nontrivial(("t2", hx))
    ctx.hit("t2_" + reg)
    if ctx.rng.random() < 0.1:
        ctx.sample({"register": reg, "frame": hx, "infer": r[1] if r[0] == "ok" else None})


def violate(rng, reg, mb):
    """yield (rule description, corrupted mb) - each violates exactly one format rule of `reg`"""
    for (sb, f0, f1) in STATUS_RULES.get(reg, []):
        base = put(put(mb, sb, sb, 0), f0, f1, 0)
        w = f1 - f0 + 1
        # every single bit of the field alone (sign bit included), plus a random non-zero value
        for b in range(f0, f1 + 1):
            yield ("status%d-clear-bit%d-set" % (sb, b), put(base, b, b, 1))
        yield ("status%d-clear-random-value" % sb, put(base, f0, f1, rng.randrange(1, 1 << w)))
    for (a, b) in RESERVED.get(reg, []):
        for bit in range(a, b + 1):
            yield ("reserved-bit%d" % bit, put(mb, bit, bit, 1))
    if reg in ("BDS10", "BDS20", "BDS30"):
        ident = {"BDS10": 0x10, "BDS20": 0x20, "BDS30": 0x30}[reg]
        for bit in range(1, 9):
            yield ("identifier-bit%d" % bit, mb ^ (1 << (56 - bit)))
    if reg == "BDS10":
        yield ("ovc-set-version<5", put(put(mb, 15, 15, 1), 17, 23, rng.randint(0, 4)))
        yield ("ovc-clear-version>4", put(put(mb, 15, 15, 0), 17, 23, rng.randint(5, 127)))
    if reg == "BDS17":
        yield ("bds20-capability-clear", put(mb, 7, 7, 0) or put(put(mb, 7, 7, 0), 1, 1, 1))
    if reg == "BDS20":
        illegal = [c for c in range(64) if c not in LEGAL6]
        k = rng.randrange(8)
        code = rng.choice(illegal)
        m2 = put(mb, 9 + 6 * k, 14 + 6 * k, code)
        if (m2 & ((1 << 48) - 1)) != 0:
            yield ("illegal-character-code%d-at%d" % (code, k), m2)
        # several / all positions illegal (one repeated code, or mixed): only the all-zero field is the "no identification" case
        nbad = rng.choice((2, 4, 7, 8, 8))
        m3 = mb
        same = rng.choice(illegal)
        for kk in rng.sample(range(8), nbad):
            m3 = put(m3, 9 + 6 * kk, 14 + 6 * kk, same if rng.random() < 0.5 else rng.choice(illegal))
        if (m3 & ((1 << 48) - 1)) != 0:
            yield ("illegal-character-codes-at-%d-positions" % nbad, m3)
    if reg == "BDS30":
        yield ("threat-type-3", put(mb, 29, 30, 3))
    if reg == "BDS44":
        yield ("source>4", put(mb, 1, 4, rng.randint(5, 15)))


def m_t3(ctx, case):
    from pyModeS import bds
    IS = isfuncs()
    reg = case["reg"]
    rng = ctx.rng
    for _ in range(case["n"]):
        df = rng.choice((20, 21))
        if reg in ("BDS50", "BDS60", "BDS40", "BDS44", "BDS45"):
            mb, altcode = (b50(rng, True), None) if reg == "BDS50" else b60(rng, df, True) if reg == "BDS60" else BUILD[reg](rng, df)
        else:
            mb, altcode = BUILD[reg](rng, df)
        for rule, bad in violate(rng, reg, mb):
            if bad == 0:
                continue
            hx = commb_hex(ctx, bad, df, altcode)
            r = call(bds.infer, hx, True)
            q = call(IS[reg], hx)
            ctx.ev(2)
            reported = (r[0] == "ok" and r[1] is not None and reg in str(r[1]).split(",")) or q == ("ok", True)
            if r[0] != "ok":
                ctx.violation("infer-raises", frame=hx, observed=r[1:])
            elif reported:
                key = "rule-violation-reported-as-%s" % reg
                if reg == "BDS50" and rule == "status1-clear-bit2-set":
                    key = "is50-ignores-roll-sign-bit"
                ctx.violation(key, frame=hx, mb="%014X" % bad, rule=rule, infer=r[1], isXX=q[1:])
            ctx.nontrivial(("t3", hx))
    ctx.hit("t3_" + reg)


def fdec(mb, name):
    mod, sb, gb, msb, lsb, k, off, wrap = rc.FIELDS[name]
    st = (mb >> (56 - sb)) & 1
    sg = (mb >> (56 - gb)) & 1 if gb else 0
    raw = (mb >> (56 - lsb)) & ((1 << (lsb - msb + 1)) - 1)
    return rc.expected(name, st, sg, raw)


def vxy(v, ang):
    return v * math.sin(math.radians(ang)), v * math.cos(math.radians(ang))


def m_t4(ctx, case):
    from pyModeS import bds
    zero_mach = [0]
    IS = isfuncs()
    rng = ctx.rng
    for _ in range(case["n"]):
        kind = rng.random()
        if kind < 0.15:
            mb = rng.fill(56)            # mostly not both
        elif kind < 0.25:
            mb = b50(rng)
        else:
            # content valid under both layouts (see DESIGN C12/T4)
            st = [1 if rng.random() < 0.85 else 0 for _ in range(5)]
            mb = 0
            if st[0]:
                v = rng.randint(-284, 284)
                mb = put(put(put(mb, 1, 1, 1), 2, 2, 1 if v < 0 else 0), 3, 11, v & 511)
            # bit 12 = trk50 status = lsb of hdg60 ; bit 13 = ias60 status = trk50 sign
            if st[1] and rng.random() < 0.25:
                # BDS 6,0 reading: IAS not available (status and field zero) while the heading lsb (= track status of the
                # BDS 5,0 reading) is set -> track exactly 0, the IAS-derived vector is NaN in the arbitration
                mb = put(put(mb, 12, 12, 1), 13, 23, 0)
            elif st[1]:
                mb = put(put(put(mb, 12, 12, 1), 13, 13, 1), 14, 23, rng.randint(60, 500))
            if st[2]:
                mb = put(put(mb, 24, 24, 1), 25, 34, rng.randint(30, 250))
                if st[1] and (mb >> 43) & 1 and rng.random() < 0.06:
                    # Mach available and exactly 0.000 with IAS 19 / 20 / 21 kt: the only place where the Mach-IAS difference is an
                    # exact number - "differs by more than 20 kt" does not include exactly 20
                    mb = put(put(mb, 25, 34, 0), 14, 23, rng.choice((19, 20, 20, 21)))
                    zero_mach[0] += 1
            slow = False
            if st[1] and st[2] and (mb >> 43) & 1 and rng.random() < 0.05:
                # an aircraft at rest or taxiing: IAS available and 0 / 1 / 2 kt, Mach a few LSB (0.004 each; up to 7 LSB stay
                # within 20 kt of the IAS) - an AVAILABLE zero is a value, not "no data": its vector (0, 0) takes part in the
                # arbitration, and against a reference at rest it is the nearest one
                mb = put(put(mb, 14, 23, rng.choice((0, 0, 0, 1, 2))), 25, 34, rng.randint(1, 7))
                slow = True
            if st[3]:
                v = rng.randint(-187, 187)
                mb = put(put(put(mb, 35, 35, 1), 36, 36, 1 if v < 0 else 0), 37, 45, v & 511)
            if st[4]:
                mb = put(put(mb, 46, 46, 1), 47, 56, rng.randint(0, 187))
            if st[2] and st[4]:
                gs = (mb >> 22) & 1023
                tas = mb & 1023
                if abs(tas - gs) > 100:
                    mb = put(mb, 47, 56, max(0, min(187, gs + rng.randint(-100, 100))))
        hx = commb_hex(ctx, mb, 21)
        df20 = None
        if rng.random() < 0.4:
            # the same arbitration for a DF20 reply: its header altitude is chosen so that Mach and IAS agree THERE (else the
            # payload is no BDS 6,0 candidate at all), while the reference altitude handed to is50or60 is drawn independently -
            # the Mach/IAS rule of the arbitration is evaluated at alt_ref, whatever the header says
            m_, i_ = fdec(mb, "mach60"), fdec(mb, "ias60")
            code = 0
            if m_ is not None and i_ is not None and m_ > 0:
                lo_, hi_ = -1000.0, 50000.0
                f_ = lambda hh: isa.mach2cas(m_, hh * isa.FT) / isa.KTS - i_      # noqa  decreasing in altitude
                if f_(lo_) > 0 > f_(hi_):
                    for _b in range(40):
                        mid_ = (lo_ + hi_) / 2
                        lo_, hi_ = (mid_, hi_) if f_(mid_) > 0 else (lo_, mid_)
                    code = ralt.q_code13(max(0, min(2047, int(round((lo_ + 1000) / 25)))))
                    ctx.hit("t4_df20_header_altitude_consistent_with_mach_and_ias")
            hx = commb_hex(ctx, mb, 20, code)
            df20 = code
        spd = rng.choice((rng.uniform(0, 600), 320.0))
        trk = rng.choice((rng.uniform(0, 360), 250.0))
        if kind >= 0.25 and slow:
            spd = rng.choice((0.0, 0, rng.uniform(0, 0.5), rng.uniform(0, 30)))
            ctx.hit("t4_available_ias_of_0_to_2_kt_with_slow_reference")
        alt = rng.choice((rng.uniform(0, 45000), 14000.0, 35000.0))
        if rng.random() < 0.3:
            # the reference IS one of the candidate vectors, up to a few ulps (a tracker feeding back the speed / track it
            # derived with the library's own conversions a moment ago): distances of ~1e-13 - a formula that cancels there
            # (law of cosines) yields NaN and the nearest candidate silently drops out.  The library's own functions are
            # used to AIM the reference only; the verdict below comes from the reference model as always.
            try:
                from pyModeS.decoder.bds import bds50 as _b50, bds60 as _b60
                from pyModeS.extra import aero as _aero
                cands = []
                if _b50.gs50(hx) is not None and _b50.trk50(hx) is not None:
                    cands.append((float(_b50.gs50(hx)), float(_b50.trk50(hx))))
                if _b60.hdg60(hx) is not None and _b60.mach60(hx) is not None:
                    cands.append((float(_aero.mach2tas(_b60.mach60(hx), alt * _aero.ft) / _aero.kts), float(_b60.hdg60(hx))))
                if _b60.hdg60(hx) is not None and _b60.ias60(hx) is not None:
                    cands.append((float(_aero.cas2tas(_b60.ias60(hx) * _aero.kts, alt * _aero.ft) / _aero.kts), float(_b60.hdg60(hx))))
                cands = [c_ for c_ in cands if c_[0] == c_[0] and c_[0] > 0]
                if cands:
                    s_, t_ = rng.choice(cands)
                    spd = s_ * (1.0 + rng.choice((-3, -2, -1, 0, 1, 2, 3, 40, -40)) * 1.2e-16)
                    trk = t_ * (1.0 + rng.choice((-2, -1, 0, 0, 1, 2)) * 1.2e-16)
                    ctx.hit("t4_reference_within_ulps_of_a_candidate")
            except Exception:
                pass
        r = call(bds.is50or60, hx, spd, trk, alt)
        a, b = call(IS["BDS50"], hx), call(IS["BDS60"], hx)
        ctx.ev(3)
        if r[0] != "ok":
            ctx.violation("is50or60-raises", frame=hx, args=[spd, trk, alt], observed=r[1:])
            continue
        both = a == ("ok", True) and b == ("ok", True)
        if not both:
            ctx.hit("t4_none")
            if r[1] is not None:
                ctx.violation("is50or60-not-none-although-not-both", frame=hx, observed=r[1], is50=a[1:], is60=b[1:])
            continue
        if mb == 0:
            continue
        h60, m60, i60 = fdec(mb, "hdg60"), fdec(mb, "mach60"), fdec(mb, "ias60")
        h50, v50 = fdec(mb, "trk50"), fdec(mb, "gs50")
        H = alt * isa.FT
        allowed = None
        amb = False
        if m60 is not None and i60 is not None:
            d = abs(i60 - isa.mach2cas(m60, H) / isa.KTS)
            if abs(d - 20) < 1.0 and m60 != 0:
                amb = True           # (Mach exactly 0 means CAS exactly 0: the difference is the integer IAS itself - decidable, "more than 20" excludes 20)
            elif d > 20:
                allowed = {"BDS50"}
        if allowed is None and not amb:
            if h60 is None or (m60 is None and i60 is None) or h50 is None or v50 is None:
                allowed = {"BDS50,BDS60"}
            else:
                mu = vxy(spd * isa.KTS, trk)
                d5 = math.dist(vxy(v50 * isa.KTS, h50), mu)
                d6 = []
                if m60 is not None:
                    d6.append(math.dist(vxy(isa.mach2tas(m60, H), h60), mu))
                if i60 is not None:
                    d6.append(math.dist(vxy(isa.cas2tas(i60 * isa.KTS, H), h60), mu))
                if abs(d5 - min(d6)) < 1.0 * isa.KTS:
                    amb = True
                else:
                    allowed = {"BDS50"} if d5 < min(d6) else {"BDS60"}
        if amb:
            ctx.amb()
            if r[1] not in ("BDS50", "BDS60", "BDS50,BDS60"):
                ctx.violation("is50or60-wrong", frame=hx, args=[spd, trk, alt], observed=r[1], note="ambiguous case, label set")
            continue
        if r[1] not in allowed:
            ctx.violation("is50or60-wrong", frame=hx, args=[spd, trk, alt], expected=sorted(allowed), observed=r[1])
        ctx.hit("t4_both" if allowed == {"BDS50,BDS60"} else "t4_decided50" if allowed == {"BDS50"} else "t4_decided60")
        if m60 == 0 and i60 == 20:
            ctx.hit("t4_mach_zero_ias_exactly_20_decided")
        ctx.nontrivial(("t4", hx, spd, trk, alt))


def m_t5(ctx, case):
    """DF20: a BDS 6,0-shaped payload whose IAS is grossly (>= 60 kt) inconsistent with its Mach number at the altitude the
    frame itself reports is never inferred as BDS60 (the altitude-dependent format rule of is60, judged with a 3x margin)"""
    from pyModeS import bds
    IS = isfuncs()
    rng = ctx.rng
    for _ in range(case["n"]):
        # altitude classes: ordinary, at/below 0 ft (Q code N<=40), Gillham (100-ft) codes
        c = rng.random()
        if c < 0.5:
            n = rng.randrange(41, 1800)
            altft, code = n * 25 - 1000, ralt.q_code13(n)
        elif c < 0.8:
            n = rng.randrange(0, 41)
            altft, code = n * 25 - 1000, ralt.q_code13(n)
        elif c < 0.9:
            altft = rng.choice(list(range(-1200, 800, 100)) + list(range(1000, 60000, 1300)))
            code = ralt.gillham_code13(altft)
        else:
            nm = rng.choice((rng.randrange(1, 4096), rng.randrange(1, 4096) | 16))   # metric header (M = 1), Q-position bit set in half
            altft, code = nm * 3.28084, ralt.m_code13(nm)
            ctx.hit("t5_metric_header_altitude")
        m = rng.randint(60, 250)
        cas = isa.mach2cas(m * 2.048 / 512.0, altft * isa.FT) / isa.KTS
        off = rng.choice((-1, 1)) * rng.uniform(60, 250)
        ias = int(round(cas + off))
        if not 0 <= ias <= 500:
            ias = int(round(cas - off))
        if not 0 <= ias <= 500 or abs(ias - cas) < 60:
            continue
        mb, _ = b60(rng, 21, True)
        mb = put(put(mb, 25, 34, m), 14, 23, ias)
        hx = commb_hex(ctx, mb, 20, code)
        r = call(bds.infer, hx, rng.random() < 0.5)
        q = call(IS["BDS60"], hx)
        ctx.ev(2)
        if r[0] != "ok":
            ctx.violation("infer-raises", frame=hx, observed=r[1:])
        elif (r[1] is not None and "BDS60" in str(r[1]).split(",")) or q == ("ok", True):
            ctx.violation("gross-mach-ias-inconsistency-reported-as-BDS60", frame=hx, altitude_ft=altft, mach=m * 0.004, ias=ias,
                          cas_of_mach=round(cas, 1), infer=r[1], is60=q[1:])
        ctx.hit("t5_alt_le0" if altft <= 0 else "t5_alt_pos")
        ctx.nontrivial(("t5", hx))


def m_t6(ctx, case):
    """the 20 kt Mach/IAS tolerance of BDS 6,0 under a DF20 header, probed to 0.2 kt: the header altitude (25-ft steps) is
    searched so that the integer IAS lies 19.7-19.9 kt (must be reported) or 20.1-20.3 kt (must not) from the CAS of the Mach
    number AT THAT pressure altitude - a bias of a few tenths of a knot in the altitude / atmosphere handling shows here"""
    from pyModeS import bds
    IS = isfuncs()
    rng = ctx.rng
    for _ in range(case["n"]):
        m = rng.randint(60, 240)
        sgn = rng.choice((-1, 1))
        want_in = rng.random() < 0.5
        lo, hi = (19.7, 19.9) if want_in else (20.1, 20.3)
        n0 = rng.choice((rng.randrange(41, 1900), rng.randrange(900, 1900)))
        found = None
        for n in range(n0, min(n0 + 120, 2047)):
            altft = n * 25 - 1000
            cas = isa.mach2cas(m * 2.048 / 512.0, altft * isa.FT) / isa.KTS
            ias = int(round(cas + sgn * (lo + hi) / 2))
            if 0 < ias <= 500 and lo <= sgn * (ias - cas) <= hi:
                found = (n, altft, cas, ias)
                break
        if not found:
            continue
        n, altft, cas, ias = found
        mb, _ = b60(rng, 21, True)
        mb = put(put(mb, 25, 34, m), 14, 23, ias)
        hx = commb_hex(ctx, mb, 20, ralt.q_code13(n))
        q = call(IS["BDS60"], hx)
        r = call(bds.infer, hx, rng.random() < 0.5)
        ctx.ev(2)
        said = q == ("ok", True) or (r[0] == "ok" and r[1] is not None and "BDS60" in str(r[1]).split(","))
        if q[0] != "ok" or r[0] != "ok":
            ctx.violation("infer-raises", frame=hx, observed=[q[1:], r[1:]])
        elif want_in and not (q == ("ok", True) and said):
            ctx.violation("valid-BDS60-not-reported", frame=hx, altitude_ft=altft, mach=m * 0.004, ias=ias, cas_of_mach=round(cas, 3),
                          off_by_kt=round(abs(ias - cas), 3), tolerance=20, infer=r[1], is60=q[1:])
        elif not want_in and said:
            ctx.violation("mach-ias-inconsistency-beyond-20kt-reported-as-BDS60", frame=hx, altitude_ft=altft, mach=m * 0.004, ias=ias,
                          cas_of_mach=round(cas, 3), off_by_kt=round(abs(ias - cas), 3), infer=r[1], is60=q[1:])
        ctx.hit("t6_within_0.3kt_inside_the_tolerance" if want_in else "t6_within_0.3kt_outside_the_tolerance")
        ctx.nontrivial(("t6", hx))


MONITORS = {"t0": m_t0, "t2": m_t2, "t3": m_t3, "t4": m_t4, "t5": m_t5, "t6": m_t6}


def sample_data():
    import csv
    import os
    from .. import core
    out = []
    d = os.path.join(core.REPO, "tests", "data")
    for fn in ("sample_data_commb_df20.csv", "sample_data_commb_df21.csv"):
        p = os.path.join(d, fn)
        if os.path.exists(p):
            for row in csv.reader(open(p, encoding="utf-8-sig")):
                if len(row) >= 3 and len(row[2]) == 28:
                    out.append(row[2])
    return out


def cases(ctx):
    rng = ctx.rng
    quick = ctx.tier == "quick"
    i = 0
    # T0/T1: DF17 type codes, all-zero payloads, every DF
    msgs = []
    for tc in range(32):
        for df in (17, 18):
            msgs.append("%028X" % bits.es_frame(df, 5, rng.fill(24), (tc << 51) | rng.fill(51)))
    for df in range(32):
        msgs.append("%028X" % bits.with_pi((df << 83) | (rng.fill(27) << 56), 112, 0))  # EMPTY
        for _ in range(6):
            msgs.append("%028X" % bits.with_pi((df << 83) | rng.fill(83), 112, rng.fill(24)))
    for k in range(0, len(msgs), 64):
        if ctx.mine(i):
            yield "t0", {"msgs": msgs[k:k + 64]}
        i += 1
    rec = sample_data()
    if quick:
        rec = rec[::5]
    for k in range(0, len(rec), 100):
        if ctx.mine(i):
            yield "t0", {"msgs": rec[k:k + 100]}
        i += 1
    for k in range(ctx.share(600 if quick else 12000)):
        ms = []
        for _ in range(100):
            df = rng.choice((20, 21, 20, 21, 17, rng.randrange(32)))
            mb = rng.fill(56)
            if rng.random() < 0.5:  # sparse payloads satisfy more format rules
                mb &= rng.fill(56) & rng.fill(56)
            hx = "%028X" % bits.with_pi((df << 83) | (rng.fill(27) << 56) | mb, 112, rng.fill(24))
            ms.append(hx.lower() if rng.random() < 0.1 else hx)
        yield "t0", {"msgs": ms}
    regs = ["BDS10", "BDS17", "BDS20", "BDS30", "BDS40", "BDS44", "BDS45", "BDS50", "BDS60"]
    for reg in regs:
        for rep in range(8 if quick else 64):
            if ctx.mine(i):
                yield "t2", {"reg": reg, "n": 800 if quick else 4000}
            i += 1
        for rep in range(8 if quick else 64):
            if ctx.mine(i):
                yield "t3", {"reg": reg, "n": 60 if quick else 150}
            i += 1
    for k in range(32 if quick else 512):
        if ctx.mine(i):
            yield "t4", {"n": 1500 if quick else 6000}
        i += 1
    for k in range(16 if quick else 128):
        if ctx.mine(i):
            yield "t5", {"n": 400 if quick else 2000}
            yield "t6", {"n": 150 if quick else 1500}
        i += 1
