"""C14 - decoders are total and type-guarded on well-formed frames."""
from __future__ import annotations

import contextlib
import io

from ..probe import call
from ..ref import bits

LEVEL = "exploration"
BRANCH_TARGETS = ['pyModeS.decoder:tell', 'pyModeS.decoder.adsb:position', 'pyModeS.decoder.adsb:position_with_ref', 'pyModeS.decoder.adsb:altitude', 'pyModeS.decoder.adsb:velocity']
TECHNIQUE = 'runtime monitoring: exception-type, shape-predicate, guard-domain and routing monitors over the DF x TC x subtype matrix for every public callable incl. tell()'
LEVEL_TEXT = 'Exploration over the full cell matrix with all-zero/all-one/random/reserved payloads; shapes and domains are transcribed from docstrings and error messages.'
LEVEL_RULE = (
    "Every public callable (adsb.__all__, commb.__all__, surv, allcall, message-taking common functions, bds.infer, "
    "bds.is50or60, decoder.uplink.*, tell) called on well-formed frames covering the full DF(32) x TC(32) x subtype(8) "
    "matrix, each cell with all-zero, all-one, random and reserved-code payloads, 28- and 14-digit frames, plus the recorded "
    "sample data. Oracle: only RuntimeError may escape; returned values satisfy a per-function shape predicate; a function "
    "with a documented DF/TC/subtype domain returns only inside it; dispatchers equal the direct decoder for exactly the "
    "type codes of its class. Distinct = distinct frame hashes."
)
EXHAUSTIVE_SUBDOMAINS = ["DF 0..31 x TC 0..31 x subtype 0..7 x {zero, ones, random} payload classes, every listed function"]
ASSUMPTIONS = ["shape predicates and guard domains are transcribed from the docstrings / error messages of the functions",
               "low-level helpers without a documented domain (e.g. *_with_ref, oe_flag, commb field decoders) are judged for "
               "exception type and shape only"]
REQUIRED = ["reference_aimed_at_solution_midpoints", "long_frames", "short_frames", "tell", "tell_on_ascii_only_stdout", "tell_without_standard_output", "tell_on_a_write_only_stdout", "routing", "guards", "matrix_df17", "matrix_other_df"]

# functions that are known to raise ValueError/IndexError on 14-digit frames (empty MB/ME slice); see KNOWN_FINDINGS
SHORT_FRAME_FUNCS = None  # filled lazily: every commb/adsb function that slices bits beyond 56


def num(x):
    return isinstance(x, (int, float)) and not isinstance(x, bool)


def onum(x):
    return x is None or num(x)


def ostr(x):
    return x is None or isinstance(x, str)


def tup(*preds):
    return lambda v: isinstance(v, tuple) and len(v) == len(preds) and all(p(x) for p, x in zip(preds, v))


def opt(p):
    return lambda v: v is None or p(v)


isstr = lambda v: isinstance(v, str)  # noqa
isint = lambda v: isinstance(v, int) and not isinstance(v, bool)  # noqa
isbool = lambda v: isinstance(v, bool) or type(v).__name__ == "bool_"  # noqa
obool = lambda v: v is None or isinstance(v, bool)  # noqa
latlon = opt(tup(num, num))
vel = lambda v: v is None or (isinstance(v, tuple) and len(v) in (4, 6) and onum(v[0]) and onum(v[1]) and onum(v[2])  # noqa
                              and isstr(v[3]) and all(ostr(x) for x in v[4:]))


def specs():
    """name -> (callable(frame, other, rng) -> result thunk args, shape predicate, domain predicate or None)"""
    import pyModeS as pms
    from pyModeS import adsb, bds, commb
    from pyModeS.decoder import allcall, surv, uplink
    S = {}

    def add(name, fn, shape, dom=None, args=lambda m, o, r: (m,)):
        S[name] = (fn, shape, dom, args)

    tcin = lambda *ts: (lambda f: f["tc"] in ts)  # noqa
    POS = tuple(range(5, 9)) + tuple(range(9, 19)) + (20, 21, 22)
    AIR = tuple(range(9, 19)) + (20, 21, 22)
    a = "adsb."
    add(a + "df", adsb.df, isint)
    add(a + "icao", adsb.icao, ostr)
    add(a + "typecode", adsb.typecode, opt(isint))
    add(a + "oe_flag", adsb.oe_flag, isint)
    add(a + "callsign", adsb.callsign, isstr, tcin(1, 2, 3, 4))
    add(a + "category", adsb.category, isint, tcin(1, 2, 3, 4))
    add(a + "altitude", adsb.altitude, onum, tcin(*POS))
    add(a + "altitude05", adsb.altitude05, onum, tcin(*AIR))
    add(a + "velocity", adsb.velocity, vel, tcin(5, 6, 7, 8, 19), lambda m, o, r: (m, r.random() < 0.5))
    add(a + "speed_heading", adsb.speed_heading, opt(tup(onum, onum)), tcin(5, 6, 7, 8, 19))
    add(a + "surface_velocity", adsb.surface_velocity, vel, tcin(5, 6, 7, 8), lambda m, o, r: (m, r.random() < 0.5))
    add(a + "airborne_velocity", adsb.airborne_velocity, vel, tcin(19), lambda m, o, r: (m, r.random() < 0.5))
    add(a + "altitude_diff", adsb.altitude_diff, onum, tcin(19))
    add(a + "nuc_v", adsb.nuc_v, tup(isint, onum, onum), tcin(19))
    add(a + "nac_v", adsb.nac_v, tup(isint, onum, onum), tcin(19))
    add(a + "nuc_p", adsb.nuc_p, tup(isint, onum, onum, onum), tcin(*POS))
    add(a + "nic_v1", adsb.nic_v1, tup(isint, onum, onum), tcin(*POS), lambda m, o, r: (m, r.choice((0, 1, True, False, "0", "1"))))
    add(a + "nic_v2", adsb.nic_v2, tup(opt(isint), onum), tcin(*POS), lambda m, o, r: (m, r.choice((0, 1, True, False, "0", "1")), r.choice((0, 1, True, False, "0", "1"))))
    add(a + "nic_b", adsb.nic_b, isint, tcin(*range(9, 19)))
    add(a + "version", adsb.version, isint, tcin(31))
    add(a + "nic_s", adsb.nic_s, isint, tcin(31))
    add(a + "nic_a_c", adsb.nic_a_c, tup(isint, isint), tcin(31))
    add(a + "nac_p", adsb.nac_p, tup(isint, onum, onum), tcin(29, 31))
    add(a + "sil", adsb.sil, tup(onum, onum, isstr), tcin(29, 31), lambda m, o, r: (m, r.choice((None, 0, 1, 2))))
    add(a + "emergency_squawk", adsb.emergency_squawk, isstr, tcin(28))
    add(a + "emergency_state", adsb.emergency_state, isint, lambda f: f["tc"] == 28 and f["st"] != 2)
    add(a + "is_emergency", adsb.is_emergency, isbool, lambda f: f["tc"] == 28 and f["st"] != 2)
    v2 = lambda f: f["tc"] == 29 and f["st29"] == 1  # noqa
    v1 = lambda f: f["tc"] == 29 and f["st29"] == 0  # noqa
    add(a + "selected_altitude", adsb.selected_altitude, tup(onum, isstr), v2)
    add(a + "baro_pressure_setting", adsb.baro_pressure_setting, onum, v2)
    add(a + "selected_heading", adsb.selected_heading, onum, v2)
    for nm in ("autopilot", "vnav_mode", "altitude_hold_mode", "approach_mode", "lnav_mode"):
        add(a + nm, getattr(adsb, nm), obool, v2)
    add(a + "target_altitude", adsb.target_altitude, tup(onum, isstr, isstr), v1)
    add(a + "target_angle", adsb.target_angle, tup(onum, isstr, isstr), v1)
    add(a + "vertical_mode", adsb.vertical_mode, opt(isint), v1)
    add(a + "horizontal_mode", adsb.horizontal_mode, opt(isint), v1)
    add(a + "tcas_ra", adsb.tcas_ra, isbool, v1)
    add(a + "emergency_status", adsb.emergency_status, isint, v1)
    add(a + "tcas_operational", adsb.tcas_operational, obool, lambda f: f["tc"] == 29 and f["st29"] in (0, 1))
    # position functions
    rlat = lambda r: r.choice((r.uniform(-80, 80), r.uniform(-90, 90), r.uniform(84, 90), r.uniform(-90, -84), 90.0, -90.0, 0.0, 87.0, -87.0,  # noqa
                               float(r.randint(-90, 90)), r.randint(-90, 90)))
    rlon = lambda r: r.choice((r.uniform(-180, 180), r.uniform(-180, 180), 0.0, 180.0, -180.0, 90.0, -90.0, r.randint(-180, 180)))  # noqa
    ref = lambda m, o, r: (m, rlat(r), rlon(r))  # noqa
    add(a + "position_with_ref", adsb.position_with_ref, tup(num, num), tcin(*POS), ref)
    add(a + "airborne_position_with_ref", adsb.airborne_position_with_ref, tup(num, num), None, ref)
    add(a + "surface_position_with_ref", adsb.surface_position_with_ref, tup(num, num), None, ref)
    # the second frame of a pair is whatever was received next: one time in four a frame of ANOTHER downlink format
    def oth(o, r):
        if r.random() < 0.25:
            df_ = r.choice((0, 4, 5, 11, 16, 20, 21, 24, 19))
            return "%028X" % ((df_ << 107) | r.getrandbits(107))
        return o
    # time stamps in every documented form: ints, floats, datetimes, numpy datetime64 (two frames of the SAME parity are refused
    # with RuntimeError whatever the stamps are - an error message that formats t1 - t0 must cope with a timedelta)
    def stamps(r):
        import datetime as _dt
        import numpy as _np
        k_ = r.randrange(8)
        if k_ >= 6:
            # a relative clock counted from datetime.min / down from datetime.max: legal datetime stamps at the ends of the range
            e_ = _dt.timedelta(seconds=r.choice((0, 1, 5, 3600, 86000)))
            b_ = _dt.datetime.min + e_ if k_ == 6 else _dt.datetime.max - e_ - _dt.timedelta(seconds=3)
            return (b_, b_ + _dt.timedelta(seconds=3)) if r.random() < 0.5 else (b_ + _dt.timedelta(seconds=2), b_)
        if k_ < 2:
            return (r.choice((1, 3)), 2)
        if k_ == 2:
            return (1.5, 0.25)
        if k_ == 3:
            b_ = _dt.datetime(2024, 1, 1, 12, 0, 0)
            return (b_, b_ + _dt.timedelta(seconds=r.choice((-2, 3))))
        if k_ == 4:
            b_ = _dt.datetime(2024, 1, 1, 12, tzinfo=_dt.timezone.utc)
            return (b_ + _dt.timedelta(seconds=1), b_)
        return (_np.datetime64("2024-01-01T12:00:00"), _np.datetime64("2024-01-01T12:00:03"))
    pair = lambda m, o, r: (m, oth(o, r)) + stamps(r)  # noqa
    pairref = lambda m, o, r: (m, oth(o, r)) + stamps(r) + (rlat(r), rlon(r))  # noqa
    # position(): lat_ref / lon_ref are documented None | float - any combination of given / omitted halves is a legal call
    posref = lambda m, o, r: (m, oth(o, r)) + stamps(r) + r.choice((  # noqa
        (rlat(r), rlon(r)), (rlat(r), rlon(r)), (rlat(r),), (None, rlon(r)), (rlat(r), None), ()))
    add(a + "position", adsb.position, latlon, tcin(*POS), posref)
    add(a + "airborne_position", adsb.airborne_position, latlon, None, pair)
    add(a + "surface_position", adsb.surface_position, latlon, None, pairref)
    for nm in commb.__all__:
        fn = getattr(commb, nm)
        if nm.startswith("is"):
            shape = isbool
        elif nm in ("wind44",):
            shape = tup(onum, onum)
        elif nm == "temp44":
            shape = tup(num, num)
        elif nm == "cap17":
            shape = lambda v: isinstance(v, list) and all(isstr(x) for x in v)  # noqa
        elif nm == "cs20":
            shape = isstr
        else:
            shape = onum
        add("commb." + nm, fn, shape)
    dfin = lambda *ds: (lambda f: f["df"] in ds)  # noqa
    add("surv.fs", surv.fs, tup(isint, ostr), dfin(4, 5))
    add("surv.dr", surv.dr, tup(isint, ostr), dfin(4, 5))
    add("surv.um", surv.um, tup(isint, isint, ostr), dfin(4, 5))
    add("surv.altitude", surv.altitude, onum, dfin(4))
    add("surv.identity", surv.identity, isstr, dfin(5))
    add("allcall.icao", allcall.icao, ostr, dfin(11))
    add("allcall.interrogator", allcall.interrogator, isstr, dfin(11))
    add("allcall.capability", allcall.capability, tup(isint, ostr), dfin(11))
    c = pms.common
    add("common.df", c.df, isint)
    add("common.crc", c.crc, isint, None, lambda m, o, r: (m, r.random() < 0.5))
    add("common.icao", c.icao, ostr)
    add("common.typecode", c.typecode, opt(isint))
    add("common.idcode", c.idcode, isstr, dfin(5, 21))
    add("common.altcode", c.altcode, onum, dfin(0, 4, 16, 20))
    add("common.data", c.data, isstr)
    add("common.allzeros", c.allzeros, isbool)
    add("bds.infer", bds.infer, ostr, None, lambda m, o, r: (m, r.random() < 0.5))
    add("bds.is50or60", bds.is50or60, ostr, None, lambda m, o, r: (m, r.uniform(0, 600), r.uniform(0, 360), r.uniform(0, 45000)))
    add("uplink.uplink_icao", uplink.uplink_icao, isstr)
    add("uplink.uf", uplink.uf, isint)
    add("uplink.bds", uplink.bds, ostr)
    add("uplink.pr", uplink.pr, opt(isint))
    add("uplink.ic", uplink.ic, ostr)
    add("uplink.lockout", uplink.lockout, obool)
    add("uplink.uplink_fields", uplink.uplink_fields, lambda v: isinstance(v, dict))
    return S


_S = None


def parse(hx):
    n = len(hx) * 4
    x = int(hx, 16)
    df = min(x >> (n - 5), 24)
    f = {"df": df, "n": n, "tc": None, "st": None, "st29": None}
    if n == 112 and df in (17, 18):
        me = (x >> 24) & ((1 << 56) - 1)
        f["tc"] = me >> 51
        f["st"] = (me >> 48) & 7
        f["st29"] = (me >> 49) & 3
    return f


def classify_exc(name, f, r):
    """mechanism key of an escaped non-RuntimeError exception"""
    msg = r[2] if len(r) > 2 else ""
    empty_slice = (r[1] == "ValueError" and msg.startswith("invalid literal for int() with base") and msg.endswith(": ''")) or \
                  (r[1] == "IndexError" and "index out of range" in msg)
    if f["n"] == 56 and empty_slice and name.startswith(("adsb.", "commb.", "bds.", "tell", "common.allzeros")):
        return "short-frame-empty-slice"
    return "non-RuntimeError-escapes:%s:%s" % (name, r[1])


def m_frames(ctx, case):
    global _S
    if _S is None:
        _S = specs()
    import pyModeS as pms
    from pyModeS import adsb
    rng = ctx.rng
    frames = case["frames"]
    for k, hx in enumerate(frames):
        f = parse(hx)
        other = frames[(k + 1) % len(frames)]
        ctx.hit("long_frames" if f["n"] == 112 else "short_frames")
        ctx.hit("matrix_df17" if f["tc"] is not None else "matrix_other_df")
        for name, (fn, shape, dom, args) in _S.items():
            a = args(hx, other, rng)
            r = call(fn, *a)
            ctx.ev()
            if r[0] == "exc":
                if r[1] != "RuntimeError":
                    ctx.violation(classify_exc(name, f, r), frame=hx, api=name, args=repr(a[1:]), observed=r[1:])
                continue
            v = r[1]
            try:
                okshape = bool(shape(v))
            except Exception:
                okshape = False
            if not okshape:
                ctx.violation("undocumented-shape:%s" % name, frame=hx, api=name, observed=repr(v)[:120])
            if dom is not None and f["n"] == 112 and not dom(f):
                ctx.violation("guard-missing:%s" % name, frame=hx, api=name, df=f["df"], tc=f["tc"], st=f["st"], observed=repr(v)[:80])
            if dom is not None and f["n"] == 56 and f["tc"] is None and name.startswith("adsb.") and name not in ("adsb.df", "adsb.icao", "adsb.typecode"):
                pass  # 56-bit DF17/18 frames: no type code is defined; not judged beyond exception type
        ctx.hit("guards")
        # routing
        if f["n"] == 112:
            tc = f["tc"]
            la, lo = rng.uniform(-80, 80), rng.uniform(-180, 180)
            r = call(adsb.position_with_ref, hx, la, lo)
            if tc is not None and 5 <= tc <= 8:
                e = call(adsb.surface_position_with_ref, hx, la, lo)
            elif tc is not None and (9 <= tc <= 18 or 20 <= tc <= 22):
                e = call(adsb.airborne_position_with_ref, hx, la, lo)
            else:
                e = ("exc", "RuntimeError")
            ctx.ev(2)
            if r[:2] != e[:2]:
                ctx.violation("routing:position_with_ref", frame=hx, tc=tc, observed=r, expected=e)
            r = call(adsb.altitude, hx)
            if tc is not None and 5 <= tc <= 8:
                e = ("ok", 0)
            elif tc is not None and (9 <= tc <= 18 or 20 <= tc <= 22):
                e = call(adsb.altitude05, hx)
            else:
                e = ("exc", "RuntimeError")
            ctx.ev(2)
            if r[:2] != e[:2]:
                ctx.violation("routing:altitude", frame=hx, tc=tc, observed=r, expected=e)
            r = call(adsb.velocity, hx, True)
            if tc is not None and 5 <= tc <= 8:
                e = call(adsb.surface_velocity, hx, True)
            elif tc == 19:
                e = call(adsb.airborne_velocity, hx, True)
            else:
                e = ("exc", "RuntimeError")
            ctx.ev(2)
            if r[:2] != e[:2]:
                ctx.violation("routing:velocity", frame=hx, tc=tc, observed=r, expected=e)
            # pair routing with a partner frame of the other parity and same class
            if tc is not None:
                x = int(hx, 16)
                partner_me = ((x >> 24) & ((1 << 56) - 1)) ^ (1 << 34)
                ph = "%028X" % bits.es_frame(f["df"], 5, (x >> 56) & 0xFFFFFF, partner_me)
                oe = (x >> (24 + 34)) & 1
                m0, m1 = (hx, ph) if oe == 0 else (ph, hx)
                r = call(adsb.position, m0, m1, 1, 2, la, lo)
                if 5 <= tc <= 8:
                    e = call(adsb.surface_position, m0, m1, 1, 2, la, lo)
                elif 9 <= tc <= 18 or 20 <= tc <= 22:
                    e = call(adsb.airborne_position, m0, m1, 1, 2)
                else:
                    e = ("exc", "RuntimeError")
                ctx.ev(2)
                if r[:2] != e[:2]:
                    ctx.violation("routing:position", frame=hx, tc=tc, observed=r, expected=e)
            ctx.hit("routing")
        # tell - on a standard output that can only encode ASCII (a log file opened that way, PYTHONIOENCODING=ascii, the C
        # locale without UTF-8 mode): what tell() prints is the library's choice, where it is printed is the host's
        class _Ascii(io.StringIO):
            def write(self, s_):
                s_.encode("ascii")
                return io.StringIO.write(self, s_)
        buf = _Ascii()
        with contextlib.redirect_stdout(buf):
            r = call(pms.tell, hx)
        ctx.ev()
        ctx.hit("tell_on_ascii_only_stdout")
        if k % 4 == 0:
            # ... and in a process that has NO standard output at all (pythonw, a service, an embedded interpreter: sys.stdout is
            # None and print() is a documented no-op)
            with contextlib.redirect_stdout(None):
                rn = call(pms.tell, hx)
            ctx.ev()
            if (rn[0] == "exc" and rn[1] != "RuntimeError" and classify_exc("tell", f, rn).startswith("non-Runtime")) or (rn[0] != r[0]):
                ctx.violation("tell-raises-%s-without-a-standard-output" % (rn[1] if rn[0] == "exc" else "nothing"), frame=hx, observed=rn[1:],
                              with_a_stream=r[:2])
            ctx.hit("tell_without_standard_output")
        if k % 4 == 1:
            # ... and on a standard output that is the MINIMAL text sink print() asks for - an object with write(str) and nothing
            # else (a redirector into a GUI pane or a logger)
            class _WriteOnly:
                def __init__(self):
                    self.parts = []

                def write(self, s_):
                    self.parts.append(s_)
                    return len(s_)
            wo = _WriteOnly()
            with contextlib.redirect_stdout(wo):
                rw = call(pms.tell, hx)
            ctx.ev()
            if rw[:2] != r[:2] or (rw[0] == "ok" and "".join(wo.parts) != buf.getvalue()):
                ctx.violation("tell-differs-on-a-write-only-standard-output", frame=hx, observed=rw[1:], with_a_full_stream=r[:2])
            ctx.hit("tell_on_a_write_only_stdout")
        if r[0] == "exc" and r[1] != "RuntimeError":
            key = classify_exc("tell", f, r)
            if key.startswith("non-Runtime"):
                key = "tell-raises-%s" % r[1]
            ctx.violation(key, frame=hx, observed=r[1:])
        elif r[0] == "ok" and (r[1] is not None or "Message" not in buf.getvalue()):
            ctx.violation("tell-output-shape", frame=hx, observed=repr(r[1])[:80])
        ctx.hit("tell")
        ctx.nontrivial(("f", hx))
    if ctx.rng.random() < 0.02:
        ctx.sample({"frame": hx, "df": f["df"], "tc": f["tc"], "functions_called": len(_S) + 5})


def m_aimed(ctx, case):
    """position functions with a reference AIMED at the spots where a nearest-solution choice is a tie or a hair from one:
    the reference exactly 45 / 135 degrees of longitude (surface: midpoint between two of the four solutions), 45 degrees
    of latitude, half a zone, or nothing at all away from the decoded position, each +- a few ulps.  Whatever the answer is
    there, it is a (lat, lon) pair, None or RuntimeError - never StopIteration / IndexError / ZeroDivisionError."""
    import math
    from pyModeS import adsb
    from ..ref import cpr
    rng = ctx.rng
    for _ in range(case["n"]):
        sfc = rng.random() < 0.6
        lat, lon = rng.uniform(-80, 80), rng.uniform(-180, 180)
        fr = []
        for i in (0, 1):
            yz, xz = cpr.encode(lat, lon, i, sfc)[:2]
            me = cpr.me_surface(rng.choice((5, 6, 7, 8)), rng.randrange(128), 1, rng.randrange(128), 0, i, yz, xz) if sfc else \
                cpr.me_airborne(rng.choice((9, 11, 18, 20)), 0, 0, rng.fill(12), 0, i, yz, xz)
            fr.append("%028X" % bits.es_frame(17, 5, 0x4840D6, me))
        # aim with the library's own answer (steering only): where it puts this aircraft for a receiver next to it
        base = call(adsb.position, fr[0], fr[1], 1, 2, lat, lon)
        if base[0] != "ok" or base[1] is None:
            continue
        la0, lo0 = base[1]
        for dla, dlo in ((0, 45), (0, -45), (0, 135), (0, -135), (0, 90), (0, 180), (45, 0), (-45, 0), (0, 0), (45, 45), (0, 22.5), (0.75, 0), (-0.75, 0)):
            for ulps in (0, 1, -1, 2, -2):
                rla = min(90.0, max(-90.0, la0 + dla))
                rlo = lo0 + dlo
                rlo = rlo - 360.0 if rlo >= 180.0 else rlo + 360.0 if rlo < -180.0 else rlo
                for _u in range(abs(ulps)):
                    rlo = math.nextafter(rlo, math.inf if ulps > 0 else -math.inf)
                    if dla:
                        rla = min(90.0, max(-90.0, math.nextafter(rla, math.inf if ulps > 0 else -math.inf)))
                calls = [("adsb.position", adsb.position, (fr[0], fr[1], 1, 2, rla, rlo)), ("adsb.position", adsb.position, (fr[0], fr[1], 2, 1, rla, rlo)),
                         ("adsb.position_with_ref", adsb.position_with_ref, (fr[rng.randrange(2)], rla, rlo))]
                if sfc:
                    calls.append(("adsb.surface_position", adsb.surface_position, (fr[0], fr[1], 1, 2, rla, rlo)))
                for nm, fn, a in calls:
                    r = call(fn, *a)
                    ctx.ev()
                    if r[0] == "exc" and r[1] != "RuntimeError":
                        ctx.violation("non-RuntimeError-escapes:%s:%s" % (nm, r[1]), frame=a[0], api=nm, args=repr(a[1:]), observed=r[1:],
                                      note="reference aimed %s deg lat / %s deg lon %+d ulp from the decoded position" % (dla, dlo, ulps))
                    elif r[0] == "ok" and not (r[1] is None or (isinstance(r[1], tuple) and len(r[1]) == 2)):
                        ctx.violation("undocumented-shape:%s" % nm, frame=a[0], api=nm, observed=repr(r[1])[:120])
        if sfc:
            # ... and a hair INSIDE the midpoint the choice is not a tie: the receiver 45 - h degrees (longitude or latitude) away
            # from where the aircraft was put still gets the same answer as the receiver next to it
            for h in (1e-9, 1e-6, 1e-3):
                for sg in (1, -1):
                    for rla, rlo in ((la0, lo0 + sg * (45.0 - h)), (la0 + sg * (45.0 - h), lo0)):
                        if not -90.0 <= rla <= 90.0:
                            continue
                        if rla != la0 and h < 1e-3:
                            continue     # latitude: the even and the odd frame quantise to latitudes up to 1e-5 deg apart, each is
                            #              matched to the receiver on its own - only a hair larger than that is the same for both
                        rlo = rlo - 360.0 if rlo >= 180.0 else rlo + 360.0 if rlo < -180.0 else rlo
                        r = call(adsb.position, fr[0], fr[1], 1, 2, rla, rlo)
                        ctx.ev()
                        if r != base:
                            ctx.violation("surface-solution-changes-a-hair-inside-the-midpoint", frames=fr, receiver_next_to_it=[lat, lon], answer=base[1:],
                                          receiver=[rla, rlo], hair=h, observed=r[1:])
            ctx.hit("reference_a_hair_inside_solution_midpoint")
        ctx.hit("reference_aimed_at_solution_midpoints")
        ctx.nontrivial(("aim", fr[0], fr[1]))


MONITORS = {"frames": m_frames, "aimed": m_aimed}


def cases(ctx):
    yield "aimed", {"n": 6 if ctx.tier == "quick" else 120}
    yield from _cases(ctx)


def _cases(ctx):
    rng = ctx.rng
    quick = ctx.tier == "quick"
    i = 0
    nrand = 6 if quick else 12
    # DF17/18 x TC x subtype
    for df in (17, 18):
        for tc in range(32):
            if ctx.mine(i):
                fr = []
                for st in range(8):
                    head = (tc << 51) | (st << 48)
                    pay = [0, (1 << 48) - 1] + [rng.fill(48) for _ in range(nrand)]
                    # reserved / boundary codes: each 10-bit / 3-bit group saturated
                    pay += [rng.fill(48) | 0xFFC000000000, rng.fill(48) & 0x0000FFFFFFFF]
                    for p in pay:
                        fr.append("%028X" % bits.es_frame(df, rng.randrange(8), rng.fill(24), head | p))
                    fr.append(fr[-1].lower())
                yield "frames", {"frames": fr}
            i += 1
    # short DF17/18 frames whose bits 33-37 (inside the parity field) take every value
    for df in (17, 18):
        if ctx.mine(i):
            fr = []
            for tc in range(32):
                for st in range(8):
                    fr.append("%014X" % ((df << 51) | (rng.fill(27) << 24) | (tc << 19) | (st << 16) | rng.fill(16)))
            yield "frames", {"frames": fr}
        i += 1
    # other DFs, long and short
    for df in range(32):
        for n in (112, 56):
            if ctx.mine(i):
                fr = []
                w = n - 29
                for body in [0, (1 << w) - 1] + [rng.fill(w) for _ in range(6 if quick else 40)]:
                    fr.append("%0*X" % (n // 4, bits.with_pi((df << w) | body, n, rng.fill(24))))
                    fr.append("%0*X" % (n // 4, (df << (n - 5)) | (body << 24 >> 0) & ((1 << (n - 5)) - 1)))  # no valid parity
                # small parity overlays: for DF11 the overlay is the interrogator code (II 0-15, SI 16-79, beyond = corrupt) -
                # random frames only ever reach the "corrupt" branch
                for ov in (range(128) if df == 11 else (0, 1, 15, 16, 63, 64, 79, 80, 127)):
                    fr.append("%0*X" % (n // 4, bits.with_pi((df << w) | rng.fill(w), n, ov)))
                fr.append("0" * (n // 4 - 1) + "0")
                fr.append("F" * (n // 4))
                fr.append(("%0*X" % (n // 4, bits.with_pi((df << w) | rng.fill(w), n, 5))).lower())
                yield "frames", {"frames": fr}
            i += 1
    # Comm-B with sparse payloads (satisfy several register formats -> tell branches)
    for k in range(ctx.share(120 if quick else 3000)):
        fr = []
        for _ in range(40):
            mb = rng.fill(56) & rng.fill(56) & rng.fill(56)
            fr.append("%028X" % bits.commb_frame(rng.choice((20, 21)), rng.fill(27), mb, rng.fill(24)))
        yield "frames", {"frames": fr}
    # valid register contents so that tell() reaches every BDS branch
    from . import C12
    for k in range(ctx.share(60 if quick else 1500)):
        fr = []
        for reg in ("BDS10", "BDS17", "BDS20", "BDS30", "BDS40", "BDS44", "BDS45", "BDS50", "BDS60"):
            for _ in range(4):
                df = rng.choice((20, 21))
                mb, ac = C12.BUILD[reg](rng, df)
                fr.append(C12.commb_hex(ctx, mb, df, ac).upper())
        yield "frames", {"frames": fr}
    # recorded data
    import csv
    import os
    from .. import core
    p = os.path.join(core.REPO, "tests", "data", "sample_data_adsb.csv")
    if os.path.exists(p):
        rows = [r[1] for r in csv.reader(open(p, encoding="utf-8-sig")) if len(r) > 1 and len(r[1]) == 28]
        rows = rows[::8] if quick else rows
        for k in range(0, len(rows), 50):
            if ctx.mine(i):
                yield "frames", {"frames": rows[k:k + 50]}
            i += 1
