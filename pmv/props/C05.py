"""C05 - surface CPR global decode selects the solution nearest the receiver."""
from __future__ import annotations

import datetime

from .. import core
from ..probe import call
from ..ref import bits, cpr
from .. import cprgen
from .C06 import WINDOW_HI

LEVEL = "exploration"
BRANCH_TARGETS = ['pyModeS.decoder.bds.bds06:surface_position', 'pyModeS.decoder.adsb:position']
TECHNIQUE = 'runtime monitoring: reference surface CPR encoder (Nb=19) as oracle, receiver placed within the stated premise'
LEVEL_TEXT = 'Exploration dense where the 90-degree ambiguity is resolved (equator, lon 0/+-90/+-180, NL transitions); premise (<=45 NM, <45 deg) checked per case.'
LEVEL_RULE = (
    "adsb.position(...,lat_ref,lon_ref) / adsb.surface_position called on even/odd surface frames (TC 5-8) built by the "
    "reference encoder (Nb=19) from two positions <=0.2 NM apart, receiver <=45 NM away and <45 deg of longitude away; "
    "dense across the equator, lon 0, +-90, +-180 and the NL transitions; both time orders. Oracle: within one surface "
    "quantisation step of the newer position (lon mod 360), None only if the NL bands differ; no reference -> RuntimeError. "
    "Distinct = distinct (frame pair, receiver, order) hashes."
)
EXHAUSTIVE_SUBDOMAINS = ["every NL band 1..59 x hemisphere x newer parity (directed)"]
ASSUMPTIONS = ["positions whose recovered latitude is within 1e-9 deg of an NL transition are ambiguous, not judged",
               "receiver latitude clamped to [-90,90]; equal timestamps accept either frame"]
REQUIRED = ["receiver_44.5_to_45_degrees_of_longitude_away", "value_result", "datetime_ts", "aware_datetime_ts", "dst_change_ts", "datetime_ts_at_the_ends_of_the_range", "receiver_location_as_float32_scalars", "reference_is_previous_fix", "no_ref_rejected", "rx_other_hemisphere", "rx_lat_zero", "rx_across_antimeridian",
            "rx_across_greenwich", "newer_even", "newer_odd", "target_south", "target_west"] + \
           ["band%d" % nl for nl in range(1, 60)]


def build(case):
    out = []
    for i, (lat, lon) in enumerate((case["p0"], case["p1"])):
        yz, xz, rlat, _, _ = cpr.encode(lat, lon, i, True)
        # every non-position field may differ between the two frames of a pair (they are independent transmissions)
        pf = lambda k: case[k][i] if isinstance(case[k], list) else case[k]  # noqa
        me = cpr.me_surface(case["tc"][i], pf("mov"), pf("trk") >> 7, pf("trk") & 127, pf("tbit"), i, yz, xz)
        hx = "%028X" % bits.es_frame(case["df"], pf("ca"), case["addr"], me)
        out.append((hx.lower() if case.get("lower") and (case["lower"] >> i) & 1 else hx, rlat))
    return out


def m_surface(ctx, case):
    from pyModeS import adsb
    (m0, rl0), (m1, rl1) = build(case)
    te, to = case["te"], case["to"]
    rxlat, rxlon = case["rx"]
    rxlat_arg, rxlon_arg = rxlat, rxlon
    if isinstance(case["addr"], int) and case["addr"] % 5 == 2 and isinstance(rxlat, float) and isinstance(rxlon, float):
        # the receiver location as single-precision numpy scalars (a site table read from a float32 column): the receiver then IS
        # at the float32 value - the model uses exactly that position
        import numpy as _np
        if abs(float(_np.float32(rxlat))) <= 90.0:
            rxlat_arg, rxlon_arg = _np.float32(rxlat), _np.float32(rxlon)
            rxlat, rxlon = float(rxlat_arg), float(rxlon_arg)      # the model computes in double precision with the exact values
            ctx.hit("receiver_location_as_float32_scalars")
    key_w = "cprNL-window-above-87" if any(87.0 < abs(x) <= WINDOW_HI for x in (rl0, rl1)) else None
    # premise of the property: receiver within 45 NM and less than 45 deg of longitude from the target
    for (plat_, plon_) in (case["p0"], case["p1"]):
        if cpr.arc_deg(plat_, plon_, rxlat, rxlon) * 60.0 > 45.0 or cpr.lon_diff(plon_, rxlon) >= 44.995:
            ctx.hit("premise_not_met_skipped")
            return
    fn = adsb.position if case["api"] == "position" else adsb.surface_position
    if case.get("dt") == "dst":
        # naive stamps straddling the end of the skipped hour / the repeated hour of a daylight-saving change, while the
        # PROCESS runs in a zone that has one (WORKER_ENV sets TZ): naive datetimes are ordered by their wall-clock value
        lo_ = datetime.datetime(2024, 3, 31, 2, 59, 59, 500000) if case["addr"] % 2 else datetime.datetime(2024, 10, 27, 2, 59, 59, 500000)
        gap_ = abs(te - to) if te != to else 0
        hi_ = lo_ + datetime.timedelta(seconds=min(gap_, 7200))
        T0, T1 = (hi_, lo_) if te > to else (lo_, hi_) if to > te else (lo_, lo_)
        ctx.hit("dst_change_ts")
    elif case.get("dt") == "aware":
        # timezone-aware stamps with DIFFERENT offsets (two feeders): the absolute instant decides which frame is newer
        a_ = case["addr"] if isinstance(case["addr"], int) else 0
        z0 = datetime.timezone(datetime.timedelta(hours=(a_ % 25) - 12))
        z1 = datetime.timezone(datetime.timedelta(hours=((a_ >> 5) % 25) - 12))
        b0 = datetime.datetime(2024, 1, 1, 12, tzinfo=datetime.timezone.utc)
        T0 = (b0 + datetime.timedelta(seconds=te)).astimezone(z0)
        T1 = (b0 + datetime.timedelta(seconds=to)).astimezone(z1)
        ctx.hit("aware_datetime_ts")
    elif case.get("dt"):
        # timestamps are documented as int | datetime
        b0 = datetime.datetime(2024, 1, 1)
        T0, T1 = b0 + datetime.timedelta(seconds=te), b0 + datetime.timedelta(seconds=to)
        if case["addr"] % 4 == 1:
            # a relative clock: elapsed seconds counted from datetime.min (or down from datetime.max) - legal datetime stamps
            # at the very ends of the representable range, where timestamp() / astimezone() conversions overflow
            try:
                lo_s, hi_s = min(te, to), max(te, to)
                if case["addr"] % 8 == 1:
                    b_ = datetime.datetime.min + datetime.timedelta(seconds=max(0.0, -lo_s))
                else:
                    b_ = datetime.datetime.max - datetime.timedelta(seconds=max(0.0, hi_s))
                T0, T1 = b_ + datetime.timedelta(seconds=te), b_ + datetime.timedelta(seconds=to)
                ctx.hit("datetime_ts_at_the_ends_of_the_range")
            except OverflowError:
                pass
        ctx.hit("datetime_ts")
    else:
        T0, T1 = te, to
    r = call(fn, m0, m1, T0, T1, rxlat_arg, rxlon_arg)
    ctx.ev()
    if case["api"] == "position":
        r2 = call(adsb.position, m1, m0, T1, T0, rxlat_arg, rxlon_arg)  # documented order is (even, odd); position() is not
        ctx.ev()                                                # required to swap surface frames: only no-crash is judged
        if r2[0] == "exc" and r2[1] != "RuntimeError":
            ctx.violation("surface-decode-raises", frames=[m1, m0], observed=r2)
    if r[0] != "ok":
        ctx.violation("surface-decode-raises", frames=[m0, m1], rx=case["rx"], observed=r[1:])
        return
    res = r[1]
    nl0, nl1 = cpr.NL(rl0), cpr.NL(rl1)
    amb = (cpr.near_transition(rl0) and abs(rl0) != 87.0) or (cpr.near_transition(rl1) and abs(rl1) != 87.0)   # NL(+-87) = 2 is defined explicitly
    if res is None:
        ctx.hit("none_result")
        if amb:
            ctx.amb()
        elif nl0 == nl1:
            ctx.violation(key_w or "none-although-same-NL", frames=[m0, m1], rx=case["rx"], rlat=[rl0, rl1])
        return
    if amb:
        ctx.amb()
        return
    if nl0 != nl1:
        # bands differ: None would have been allowed, but a returned value still has to be the newer frame's position
        ctx.hit("value_although_bands_differ")
    ctx.hit("value_result")
    lat, lon = res
    cands = []
    if te >= to:
        cands.append((0, case["p0"], rl0))
    if to >= te:
        cands.append((1, case["p1"], rl1))
    ok = False
    worst = None
    for i, (plat, plon), rl in cands:
        slat, slon, _, _ = cpr.steps(rl, i, True)
        elat, elon = abs(lat - plat), cpr.lon_diff(lon, plon)
        if elat <= slat + 1e-9 and elon <= slon + 1e-9:
            ok = True
        worst = [i, elat / slat, elon / slon]
    plat, plon = case["p0"]
    if (rxlat > 0) != (plat > 0):
        ctx.hit("rx_other_hemisphere")
    if rxlat == 0:
        ctx.hit("rx_lat_zero")
    if abs(rxlon - plon) > 180:
        ctx.hit("rx_across_antimeridian")
    elif (rxlon >= 0) != (plon >= 0):
        ctx.hit("rx_across_greenwich")
    ctx.hit("newer_even" if te > to else "newer_odd" if to > te else "equal_ts")
    if plat < 0:
        ctx.hit("target_south")
    if plon < 0:
        ctx.hit("target_west")
    ctx.hit("band%d" % nl0)
    if not ok:
        if key_w:
            key = key_w
        elif worst[1] > 1.0 + 1e-6:
            key = "wrong-hemisphere-or-latitude"
        else:
            key = "wrong-longitude-quadrant" if worst[2] > 1000 else "wrong-position"
        ctx.violation(key, frames=[m0, m1], te=te, to=to, rx=case["rx"], result=res, p0=case["p0"], p1=case["p1"],
                      err_steps=worst)
    if ok and case.get("addr", 0) % 4 == 0:
        # a tracker feeds the fix it just got back as the reference for the next decode of the (unchanged) pair: 0 NM away
        again = call(fn, m0, m1, T0, T1, lat, lon)
        ctx.ev()
        ctx.hit("reference_is_previous_fix")
        if again[0] != "ok" or again[1] is None or abs(again[1][0] - lat) > 1e-9 or cpr.lon_diff(again[1][1], lon) > 1e-9:
            ctx.violation("decode-with-previous-fix-as-reference-differs", frames=[m0, m1], first=[lat, lon], again=again[1:])
    ctx.nontrivial(("s", m0, m1, case["rx"], te > to, to > te))
    if ctx.rng.random() < 0.0005:
        ctx.sample({"even": m0, "odd": m1, "te": te, "to": to, "rx": case["rx"], "result": res, "p_even": case["p0"]})


def m_noref(ctx, case):
    from pyModeS import adsb
    (m0, _), (m1, _) = build(case)
    for kw in ({}, {"lat_ref": 1.0}, {"lon_ref": 1.0}):
        r = call(adsb.position, m0, m1, 1, 2, **kw)
        ctx.ev()
        if not (r[0] == "exc" and r[1] == "RuntimeError"):
            ctx.violation("surface-pair-without-reference-not-rejected", frames=[m0, m1], kw=kw, observed=r)
    ctx.hit("no_ref_rejected")
    ctx.nontrivial(("nr", m0, m1))


def WORKER_ENV():
    # the workers run in a time zone WITH daylight saving (POSIX rule, no zone database needed): naive datetime stamps must
    # keep their wall-clock order whatever zone the process lives in
    return {"TZ": "CET-1CEST,M3.5.0,M10.5.0/3"}


MONITORS = {"surface": m_surface, "noref": m_noref}


def mkcase(rng, lat, lon, order=None, rx=None):
    d = rng.choice((0.0, rng.uniform(0, 0.2), 0.2, rng.uniform(0, 0.02)))
    lat1, lon1 = cpr.destination(lat, lon, rng.uniform(0, 360), d) if d > 0 else (lat, lon)
    lat1 = max(-90.0, min(90.0, lat1))
    if rx is None:
        for _ in range(20):
            rd = rng.choice((rng.uniform(0, 45), 44.9, rng.uniform(0, 2), 0.0))
            rlat, rlon = cpr.destination(lat, lon, rng.choice((0, 90, 180, 270, rng.uniform(0, 360))), rd)
            if cpr.lon_diff(rlon, lon) < 44.99 and cpr.lon_diff(rlon, lon1) < 44.99:
                break
        else:
            rlat, rlon = lat, lon
        rx = [max(-90.0, min(90.0, rlat)), rlon]
    o = order or rng.choice(("e", "o", "="))
    base = rng.choice((0, 1446332400, rng.randrange(0, 2**31), 1000, rng.randrange(0, 200000)))
    # the statement sets no limit on the age of the pair: days apart too (a small-origin clock, both stamps inside one week)
    gap = rng.choice((1, 2, 5, 9, 0.5, 0.4, 1, 2, 30, 50, 3600, 90000, 302401, 399000, 604000))
    te, to = (base + gap, base) if o == "e" else (base, base + gap) if o == "o" else (base, base)
    c = _mk(rng, locals())
    if c["dt"] is False and rng.random() < 0.12:
        # plain numbers are just numbers: a clock that counts from its own start may read 0 for the NEWER frame and a negative
        # value for the older one (or negative for both) - `t or default` / `t > 0` tests are wrong there
        sh = max(te, to) if rng.random() < 0.6 else max(te, to) + rng.choice((0.25, 7, 1000.5))
        c["te"], c["to"] = te - sh, to - sh
    elif c["dt"] is False and o != "=" and rng.random() < 0.04:
        # nanosecond counters: one stamp a Python int, the other a float, one tick apart above 2**53 - Python compares int and
        # float exactly; packing both into one float64 array (np.argmax([t1, t0])) makes them equal
        big = 17 * 10 ** 17
        c["te"], c["to"] = (big + 1, float(big)) if o == "e" else (float(big), big + 1)
        c["mixed_huge"] = 1
    return c


def _mk(rng, L):
    lat, lon, lat1, lon1, te, to = L["lat"], L["lon"], L["lat1"], L["lon1"], L["te"], L["to"]
    tc, rx = L.get("tc"), L.get("rx")
    return {"p0": [lat, lon], "p1": [lat1, lon1], "rx": rx, "tc": [rng.choice((5, 6, 7, 8)), rng.choice((5, 6, 7, 8))],
            "mov": [rng.randrange(128), rng.randrange(128)], "trk": [rng.randrange(256), rng.randrange(256)],
            "tbit": [rng.randrange(2), rng.randrange(2)], "df": rng.choice((17, 17, 18)),
            "ca": [rng.randrange(8), rng.randrange(8)], "addr": rng.fill(24), "te": te, "to": to, "dt": rng.choice((False,) * 15 + (True,) * 3 + ("aware", "dst")),
            "api": rng.choice(("position", "surface_position")), "lower": rng.choice((0, 0, 0, 0, 0, 0, 0, 1, 2, 3))}


def cases(ctx):
    rng = ctx.rng
    quick = ctx.tier == "quick"
    import random as _r
    drng = core.Rng(777)
    i = 0
    for nl in range(1, 60):
        for sgn in (1, -1):
            for order in ("e", "o"):
                if ctx.mine(i):
                    yield "surface", mkcase(drng, sgn * cprgen.band_mid(nl), drng.uniform(-180, 180), order=order)
                i += 1
    # next to a pole the receiver can be almost 45 degrees of longitude away and still within 45 NM: the strip 44.5 .. 44.99
    # degrees, where two of the four longitude solutions are almost equally far (a difference rounded to whole degrees ties)
    for k in range(ctx.share(400 if quick else 6000)):
        lat = rng.choice((1, -1)) * rng.uniform(89.35, 89.95)
        lon = rng.uniform(-180, 180)
        rxlon = cprgen.wrap180(lon + rng.choice((1, -1)) * rng.uniform(44.5, 44.99))
        c = mkcase(rng, lat, lon, rx=[lat, rxlon])
        c["p1"] = list(c["p0"])      # same position in both frames (a moving pair would leave the strip)
        yield "surface", c
        ctx.hit("receiver_44.5_to_45_degrees_of_longitude_away")
    # directed ambiguity-resolution cases: (target, receiver)
    D = [((-0.1, 10.0), (0.1, 10.0)), ((0.1, 10.0), (-0.1, 10.0)), ((0.2, -30.0), (0.0, -30.0)), ((-0.2, -30.0), (0.0, -30.0)),
         ((40.0, -179.95), (40.0, 179.95)), ((40.0, 179.95), (40.0, -179.95)), ((-40.0, 0.05), (-40.0, -0.05)),
         ((-40.0, -0.05), (-40.0, 0.05)), ((10.0, 90.02), (10.0, 89.98)), ((10.0, -90.02), (10.0, -89.98)),
         ((0.05, 179.98), (-0.05, -179.98)), ((52.0, 4.0), (52.3, 4.7)), ((-43.48564, 172.53942), (-43.496, 172.558))]
    for (p, rx) in D:
        for order in ("e", "o"):
            if ctx.mine(i):
                c = mkcase(drng, p[0], p[1], order=order, rx=list(rx))
                yield "surface", c
            i += 1
    for k in range(ctx.share(200)):
        yield "noref", mkcase(rng, cprgen.rand_sphere_lat(rng), rng.uniform(-180, 180))
    n = ctx.share(400000 if quick else 8000000)
    dl = cprgen.directed_lats(rng, n // 2 + 1)
    for k in range(n):
        c = rng.random()
        if k % 2 == 0:
            lat = dl[k // 2]
        elif c < 0.3:
            lat = rng.uniform(-0.7, 0.7)
        else:
            lat = cprgen.rand_sphere_lat(rng)
        lon = cprgen.directed_lon(rng, lat, k & 1, True)
        yield "surface", mkcase(rng, lat, lon)
