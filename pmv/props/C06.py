"""C06 - cprNL equals the DO-260B NL function."""
from __future__ import annotations

import math

from ..probe import call
from ..ref import cpr

LEVEL = "exploration"
BRANCH_TARGETS = ['pyModeS.py_common:cprNL']
TECHNIQUE = 'runtime monitoring: NL table from closed-form transition latitudes as oracle + trace monitors (evenness, monotonicity) over recorded calls'
LEVEL_TEXT = 'Exploration with an exhaustive 0.0005-degree grid (0.0001 in thorough) and +-1..64 ulps / +-1e-12..1e-3 around all 58 transitions; the remaining reals between grid points are not observed.'
LEVEL_RULE = (
    "py_common.cprNL called on the 0.0005-degree grid over [-90,90], on +-1..64 ulps and +-{1e-12..1e-3} around each of "
    "the 58 transition latitudes, 0, +-87, +-90 and on random latitudes; oracle = NL table from the closed-form "
    "transition latitudes (either neighbour accepted within 1e-9 deg of a transition); trace monitors for evenness and "
    "monotonicity over the recorded calls. Non-trivial = every latitude (distinct floats counted)."
)
EXHAUSTIVE_SUBDOMAINS = ["the 0.0005-degree grid over [-90,90] (360001 points, split over shards)"]
ASSUMPTIONS = ["transition latitudes computed in double precision; cases within 1e-9 deg of one accept both neighbours",
               "Python implementation here; the C twin is compared on the same latitude set by C15"]
REQUIRED = ["nl_1", "nl_2", "nl_59", "grid", "cprgrid", "tiny", "ulps", "window87", "float_after_equal_float32"]

WINDOW_HI = 87.0 + 1e-8 + 1e-5 * 87 + 1e-9


def classify(lat):
    a = abs(lat)
    if 87.0 < a <= WINDOW_HI:
        return "isclose-window-above-87"
    return "cprNL-wrong-value"


def m_nl(ctx, case):
    from pyModeS import py_common
    f = py_common.cprNL
    prev = None
    conv = (lambda x: x)
    if case.get("as") == "float32":
        import numpy as np
        conv = np.float32
    elif case.get("as"):
        import numpy as np
        conv = getattr(np, case["as"])      # whole degrees in a numpy integer dtype (an element of an integer array)
    for lat in case["lats"]:
        if case.get("warm"):
            # the same number seen first in another type (single precision is legitimately imprecise next to a transition and
            # is NOT judged there) - the double-precision answer that follows is judged as strictly as ever
            import numpy as np
            call(f, np.float32(lat))
            call(f, np.float32(-lat))
            ctx.hit("float_after_equal_float32")
        r = call(f, conv(lat))
        ctx.ev()
        if case.get("kind") not in ("grid", "random"):
            # the same call in a host program that turns floating-point anomalies into exceptions and warnings into errors
            import warnings
            import numpy as np
            with np.errstate(all="raise"), warnings.catch_warnings():
                warnings.simplefilter("error")
                rs = call(f, conv(lat))
            ctx.ev()
            if rs != r:
                ctx.violation("cprNL-depends-on-error-policy", lat=lat, as_type=case.get("as", "float"), default_policy=r[1:], strict_policy=rs[1:])
            # ... and in one that SILENCES them (np.errstate(all="ignore"), warnings ignored)
            with np.errstate(all="ignore"), warnings.catch_warnings():
                warnings.simplefilter("ignore")
                rq = call(f, conv(lat))
            ctx.ev()
            if rq != r:
                ctx.violation("cprNL-depends-on-error-policy", lat=lat, as_type=case.get("as", "float"), default_policy=r[1:], silenced_policy=rq[1:])
        allowed = cpr.NL_allowed(lat)
        if r[0] != "ok":
            ctx.violation("cprNL-raises", lat=lat, observed=r[1:])
            continue
        v = r[1]
        ctx.hit("nl_%d" % v) if v in (1, 2, 59) else None
        if 87.0 < abs(lat) <= WINDOW_HI:
            ctx.hit("window87")
        if cpr.near_transition(lat):
            ctx.amb()
        if v not in allowed or not isinstance(v, int):
            ctx.violation(classify(lat), lat=lat, expected=sorted(allowed), observed=v)
        # evenness (not for unsigned dtypes, which cannot hold -lat)
        if str(case.get("as", "")).startswith("uint"):
            prev = (lat, v)
            ctx.nontrivial(("nl", lat, case.get("as")))
            continue
        r2 = call(f, conv(-lat))
        ctx.ev()
        if r2 != r:
            ctx.violation("cprNL-not-even", lat=lat, plus=r[1:], minus=r2[1:])
        # monotone within a sorted case (non-increasing in |lat|), judged outside transitions' eps and the 87 window
        if case.get("sorted_abs") and prev is not None:
            plat, pv = prev
            if v > pv and not (87.0 < abs(plat) <= WINDOW_HI or 87.0 < abs(lat) <= WINDOW_HI):
                ctx.violation("cprNL-not-monotone", lat0=plat, nl0=pv, lat1=lat, nl1=v)
        prev = (lat, v)
        ctx.nontrivial(("nl", lat))
    ctx.hit(case["kind"])
    if ctx.rng.random() < 0.002:
        ctx.sample({"kind": case["kind"], "lat": case["lats"][0], "NL": cpr.NL(case["lats"][0])})


MONITORS = {"nl": m_nl}


def directed_lats():
    pts = []
    centres = sorted(set(list(cpr.TRANS.values()) + [0.0, 87.0, 90.0]))
    for c in centres:
        x = c
        ups, downs = [], []
        u = d = c
        for _ in range(64):
            u = math.nextafter(u, math.inf)
            d = math.nextafter(d, -math.inf)
            ups.append(u)
            downs.append(d)
        pts.append(("ulps", sorted(downs) + [c] + ups))
        deltas = [10.0 ** -k for k in range(12, 2, -1)] + [2e-9, 5e-9, 8.7e-4, 8.69e-4, 8.71e-4, 5e-4]
        pts.append(("deltas", sorted(c - e for e in deltas) + sorted(c + e for e in deltas)))
    return pts


def cases(ctx):
    i = 0
    quick = ctx.tier == "quick"
    for kind, lats in directed_lats():
        lats = [x for x in lats if -90.0 <= x <= 90.0 or abs(x) < 90.0001]
        lats = [max(-90.0, min(90.0, x)) for x in lats]
        if ctx.mine(i):
            yield "nl", {"kind": kind, "lats": lats, "sorted_abs": all(x >= 0 for x in lats)}
        i += 1
    # grid
    step = 0.0005
    N = 180000  # points on [0, 90]; negative side through evenness monitor + explicit negatives below
    chunk = 1000
    for c0 in range(0, N + 1, chunk):
        if ctx.mine(i):
            lats = [min(90.0, k * step) for k in range(c0, min(c0 + chunk, N + 1))]
            yield "nl", {"kind": "grid", "lats": lats, "sorted_abs": True}
            if not quick or (c0 // chunk) % 4 == 0:
                yield "nl", {"kind": "grid", "lats": [-x for x in lats], "sorted_abs": True}
        i += 1
    if not quick:
        # 0.0001-degree grid (offset by half a step so that it adds new points)
        N2 = 900000
        for c0 in range(0, N2, 2000):
            if ctx.mine(i):
                yield "nl", {"kind": "grid", "lats": [min(90.0, (k + 0.5) * 0.0001) for k in range(c0, c0 + 2000)], "sorted_abs": True}
            i += 1
    rng = ctx.rng
    for k in range(ctx.share(1500 if quick else 4000)):
        lats = sorted(rng.uniform(0, 90) for _ in range(250))
        yield "nl", {"kind": "random", "lats": lats, "sorted_abs": True}
    # the latitudes the position decoders actually feed in: the CPR grid rows next to every transition (airborne and surface
    # grids, even and odd format, both hemispheres) and next to the equator
    if ctx.mine(i):
        import math as _m
        rows = set()
        for par in (0, 1):
            for q in (1.0, 4.0):
                d_ = 360.0 / (60 - par) / q / 131072.0
                for T_ in list(cpr.TRANS.values()) + [0.0]:
                    j_ = _m.floor(T_ / d_)
                    for dj in (-2, -1, 0, 1, 2, 3):
                        x_ = (j_ + dj) * d_
                        if 0.0 <= x_ <= 90.0:
                            rows.add(x_)
        rows = sorted(rows)
        yield "nl", {"kind": "cprgrid", "lats": rows, "sorted_abs": True}
        yield "nl", {"kind": "cprgrid", "lats": [-x_ for x_ in rows], "sorted_abs": True}
    i += 1
    # "every float neighbourhood of 0": denormal and tiny latitudes, as Python floats and as numpy float64 scalars (the replay
    # phases repeat them under np.errstate(all="raise"): scaling such a value to radians before the equator test underflows)
    if ctx.mine(i):
        tiny = [5e-324, 1e-320, 1e-310, 2.3e-308, 1e-307, 1e-300, 1e-200, 1e-100, 1e-30, 1e-12]
        yield "nl", {"kind": "tiny", "lats": tiny, "sorted_abs": True}
        yield "nl", {"kind": "tiny", "lats": [-x_ for x_ in tiny], "sorted_abs": True}
        yield "nl", {"kind": "tiny", "lats": tiny, "sorted_abs": True, "as": "float64"}
        yield "nl", {"kind": "tiny", "lats": [-x_ for x_ in tiny], "sorted_abs": True, "as": "float64"}
    i += 1
    # argument types: integer latitudes are real latitudes too.  (Single-precision inputs are not judged NEAR transitions:
    # the closed form evaluated in float32 legitimately flips within ~1e-6 deg of one; away from them see "float32" below.)
    if ctx.mine(i):
        yield "nl", {"kind": "ints", "lats": list(range(0, 91)), "sorted_abs": True}
        yield "nl", {"kind": "ints", "lats": [-k for k in range(0, 91)], "sorted_abs": True}
        for dt in ("int8", "int16", "int32", "int64", "uint8", "uint16"):
            yield "nl", {"kind": "ints", "lats": list(range(0, 91)), "sorted_abs": True, "as": dt}
    i += 1
    # single-precision latitudes (as taken from float32 arrays), judged only when at least 1e-4 degree away from every
    # transition (incl. 87): there the exact real value of the argument decides and no arithmetic subtlety is involved
    import numpy as np
    for k in range(ctx.share(200 if quick else 2000)):
        raw = [rng.uniform(0, 90) for _ in range(150)] + [10 ** rng.uniform(-8, -0.5) for _ in range(100)]
        lats = sorted(float(np.float32(x)) for x in raw)
        lats = [x for x in lats if x <= 90.0 and not cpr.near_transition(x, 1e-4) and abs(x - 87.0) > 1e-4]
        yield "nl", {"kind": "float32", "lats": lats, "sorted_abs": True, "as": "float32"}
    # float32-representable latitudes right next to the transitions: asked first as float32 (unjudged), then as float
    for k in range(ctx.share(40 if quick else 400)):
        lats = []
        for T in cpr.TRANS.values():
            for _ in range(6):
                x = float(np.float32(T + rng.choice((-1, 1)) * 10 ** rng.uniform(-7, -4.5)))
                if 0 < x < 90 and not cpr.near_transition(x):
                    lats.append(x)
        yield "nl", {"kind": "warm", "lats": sorted(lats), "sorted_abs": True, "warm": "float32"}
    # dense inside/around the 87 window
    for k in range(ctx.share(64)):
        lats = sorted(rng.uniform(86.998, 87.002) for _ in range(200))
        yield "nl", {"kind": "window", "lats": lats, "sorted_abs": True}
