"""C04 - CPR decode with a reference position (airborne and surface)."""
from __future__ import annotations

import math

from .. import core
from ..probe import call
from ..ref import bits, cpr
from .. import cprgen
from .C06 import WINDOW_HI

LEVEL = "exploration"
BRANCH_TARGETS = ['pyModeS.decoder.bds.bds05:airborne_position_with_ref', 'pyModeS.decoder.bds.bds06:surface_position_with_ref', 'pyModeS.decoder.adsb:position_with_ref']
TECHNIQUE = 'runtime monitoring: reference CPR encoder as oracle + metamorphic relation between two references inside the half-zone box'
LEVEL_TEXT = 'Exploration: both parities x airborne/surface x every NL band, references uniform in the box and at 0.999 of its edges/corners, across the equator, Greenwich and the antimeridian.'
LEVEL_RULE = (
    "adsb.position_with_ref / airborne_position_with_ref / surface_position_with_ref called on single frames built by the "
    "reference CPR encoder (both parities, airborne Nb=17 and surface Nb=19), with two references drawn inside the half-zone "
    "box around the encoded position (uniform, and at 0.999 of each edge/corner; across the equator, lon 0 and the "
    "antimeridian). Oracle: result within one quantisation step of the encoded position (lon mod 360) and identical for "
    "both references. Non-trivial: every case; distinct = distinct (frame, references) hashes."
)
EXHAUSTIVE_SUBDOMAINS = ["every NL band 1..59 x hemisphere x parity x {airborne,surface} (directed mid-band positions)"]
ASSUMPTIONS = ["reference latitude clamped to [-90,90], reference longitude wrapped to [-180,180)",
               "box shrunk by two quantisation steps so that float round-off cannot move a reference outside it"]
REQUIRED = ["airborne", "decoded_latitude_exactly_87", "grid_rows_next_to_the_equator", "surface", "parity0", "parity1", "ni_le_0", "ni_gt_0", "ref_across_equator", "ref_across_antimeridian",
            "ref_across_greenwich", "corner", "routing_checked", "ref_lat_exactly_zero", "ref_lon_exactly_zero", "ref_lon_not_folded", "ref_lon_0_360_convention", "ref_a_hair_inside_box_edge", "reference_is_previous_fix"] + \
           ["band%d_%s" % (nl, s) for nl in range(1, 60) for s in ("air", "sfc")]


def m_ref(ctx, case):
    from pyModeS import adsb
    lat, lon = case["p"]
    i, sfc = case["i"], case["surface"]
    yz, xz, rlat, _, _ = cpr.encode(lat, lon, i, sfc)
    if sfc:
        me = cpr.me_surface(case["tc"], case["mov"], case["trk"] >> 7, case["trk"] & 127, case["tbit"], i, yz, xz)
    else:
        me = cpr.me_airborne(case["tc"], case["ss"], 0, case["alt"], case["tbit"], i, yz, xz)
    msg = "%028X" % bits.es_frame(case["df"], case["ca"], case["addr"], me)
    if case.get("lower"):
        msg = msg.lower()
    slat, slon, dlat, dlon = cpr.steps(rlat, i, sfc)
    nl = cpr.NL(rlat)
    if cpr.near_transition(rlat) and abs(rlat) != 87.0:
        ctx.amb()
        return
    if abs(rlat) == 87.0:
        ctx.hit("decoded_latitude_exactly_87")    # not ambiguous: DO-260B defines NL(+-87) = 2 explicitly
    key_w = "cprNL-window-above-87" if 87.0 < abs(rlat) <= WINDOW_HI else None
    results = []
    if case.get("edge"):
        # the encoded position sits in the middle of its zone and the reference a hair inside the edge of the admissible
        # half-zone box (distance = half a zone minus eps): still "closer than half a zone", so the solution is unique
        e = case["edge"]
        q = 4.0 if sfc else 1.0
        rlon = (dlon_z := slon * 131072.0) * (math.floor(lon / dlon_z) + xz / 131072.0)
        if e["dim"] == "lat":
            ry, rx = rlat + e["sgn"] * (dlat / 2 - e["eps"]), lon + 0.01 * e["sgn"]
        else:
            ry, rx = rlat + 0.01 * e["sgn"], rlon + e["sgn"] * (dlon / 2 - e["eps"])
        if -90.0 <= ry <= 90.0:
            rr = [call(f, msg, ry, cprgen.wrap180(rx)) for f in (adsb.position_with_ref, adsb.surface_position_with_ref if sfc else adsb.airborne_position_with_ref)]
            ctx.ev(2)
            ctx.hit("ref_a_hair_inside_box_edge")
            ok = rr[0] == rr[1] and rr[0][0] == "ok" and rr[0][1] is not None and abs(rr[0][1][0] - lat) <= slat + 1e-9 \
                and cpr.lon_diff(rr[0][1][1], lon) <= slon + 1e-9
            if not ok:
                ctx.violation(key_w or "wrong-position", msg=msg, p=[lat, lon], ref=[ry, rx], result=repr(rr)[:200], edge=e, i=i, surface=sfc)
    for (fy, fx) in case["offs"]:
        hy = dlat / 2 - 2 * slat
        hx = dlon / 2 - 2 * slon
        rlat_ref = max(-90.0, min(90.0, lat + fy * hy))
        rlon_ref = cprgen.wrap180(lon + fx * hx)
        if case.get("lonconv") == "raw":
            rlon_ref = lon + fx * hx                 # not folded back: may lie a little beyond +-180
            ctx.hit("ref_lon_not_folded")
        elif case.get("lonconv") == "0-360" and rlon_ref < 0:
            rlon_ref += 360.0                        # receiver longitude in the 0..360 convention
            ctx.hit("ref_lon_0_360_convention")
        if case.get("zref"):
            # a receiver exactly on the equator and / or on the Greenwich meridian: 0.0 (or int 0) is a value, not "missing"
            z = 0 if case["zref"].endswith("i") else 0.0
            if "a" in case["zref"] and abs(lat) <= hy:
                rlat_ref = z
                ctx.hit("ref_lat_exactly_zero")
            if "o" in case["zref"] and cpr.lon_diff(0.0, lon) <= hx:
                rlon_ref = z
                ctx.hit("ref_lon_exactly_zero")
        if case.get("intref"):
            # receivers are commonly configured with whole degrees: Python ints, when they still lie inside the box
            ci, cj = int(round(rlat_ref)), int(round(rlon_ref))
            if abs(ci - lat) <= hy and cpr.lon_diff(cj, lon) <= hx and -90 <= ci <= 90:
                rlat_ref, rlon_ref = ci, (cj if -180 <= cj < 180 else cj - 360 if cj >= 180 else cj + 360)
                ctx.hit("int_reference")
        if (rlat_ref > 0) != (lat > 0):
            ctx.hit("ref_across_equator")
        if abs(rlon_ref - lon) > 180:
            ctx.hit("ref_across_antimeridian")
        elif (rlon_ref > 0) != (lon > 0):
            ctx.hit("ref_across_greenwich")
        if abs(fy) > 0.99 and abs(fx) > 0.99:
            ctx.hit("corner")
        fns = [adsb.position_with_ref, adsb.surface_position_with_ref if sfc else adsb.airborne_position_with_ref]
        rr = [call(f, msg, rlat_ref, rlon_ref) for f in fns]
        ctx.ev(2)
        if rr[0] != rr[1]:
            ctx.violation("routing-differs-from-direct-decoder", msg=msg, ref=[rlat_ref, rlon_ref], observed=rr)
            return
        ctx.hit("routing_checked")
        r = rr[0]
        if r[0] != "ok" or r[1] is None or len(r[1]) != 2:
            ctx.violation("ref-decode-raises-or-none", msg=msg, ref=[rlat_ref, rlon_ref], observed=r)
            return
        la, lo = r[1]
        elat, elon = abs(la - lat), cpr.lon_diff(lo, lon)
        if not (elat <= slat + 1e-9 and elon <= slon + 1e-9):
            ctx.violation(key_w or "wrong-position", msg=msg, p=[lat, lon], ref=[rlat_ref, rlon_ref], result=[la, lo],
                          err_steps=[elat / slat, elon / slon], i=i, surface=sfc, rlat=rlat, nl=nl)
            return
        ctx.note_max("max_lat_err_steps", elat / slat)
        ctx.note_max("max_lon_err_steps", elon / slon)
        results.append((la, lo))
    if results:
        # a tracker feeds the fix it just got back as the reference for the next decode of the same message: 0 NM away
        la0, lo0 = results[0]
        rr = [call(f, msg, la0, lo0) for f in (adsb.position_with_ref, adsb.surface_position_with_ref if sfc else adsb.airborne_position_with_ref)]
        ctx.ev(2)
        ctx.hit("reference_is_previous_fix")
        for r_ in rr:
            if r_[0] != "ok" or r_[1] is None or abs(r_[1][0] - la0) > 1e-9 or cpr.lon_diff(r_[1][1], lo0) > 1e-9:
                ctx.violation(key_w or "decode-with-previous-fix-as-reference-differs", msg=msg, first=[la0, lo0], again=r_[1:])
                break
    if len(results) == 2:
        (a0, o0), (a1, o1) = results
        if a0 != a1 or cpr.lon_diff(o0, o1) > 1e-9:
            ctx.violation(key_w or "result-depends-on-reference", msg=msg, results=results)
    ctx.hit("surface" if sfc else "airborne")
    ctx.hit("parity%d" % i)
    ctx.hit("ni_gt_0" if nl - i > 0 else "ni_le_0")
    ctx.hit("band%d_%s" % (nl, "sfc" if sfc else "air"))
    ctx.nontrivial(("r", msg, case["offs"]))
    if ctx.rng.random() < 0.0005:
        ctx.sample({"msg": msg, "p": [lat, lon], "offs_fraction_of_half_zone": case["offs"], "result": results[:1]})


MONITORS = {"ref": m_ref}


def mkcase(rng, lat, lon, i=None, sfc=None, offs=None):
    sfc = rng.random() < 0.5 if sfc is None else sfc
    i = rng.randrange(2) if i is None else i
    if offs is None:
        offs = []
        for _ in range(2):
            c = rng.random()
            if c < 0.5:
                offs.append([rng.uniform(-1, 1), rng.uniform(-1, 1)])
            elif c < 0.8:
                offs.append([rng.choice((-0.999, 0.999)), rng.choice((-0.999, 0.999))])
            else:
                offs.append([rng.choice((-0.999, 0.999, 0.0, rng.uniform(-1, 1))), rng.choice((-0.999, 0.999, 0.0))])
    return {"p": [lat, lon], "i": i, "surface": sfc,
            "tc": rng.choice((5, 6, 7, 8)) if sfc else rng.choice(list(range(9, 19)) + [20, 21, 22]),
            "mov": rng.randrange(128), "trk": rng.randrange(256), "ss": rng.randrange(4), "alt": rng.fill(12),
            "tbit": rng.randrange(2), "df": rng.choice((17, 17, 18)), "ca": rng.randrange(8), "addr": rng.fill(24),
            "offs": offs, "lower": rng.random() < 0.1, "intref": rng.random() < 0.1,
            "lonconv": rng.choice(("", "", "", "", "", "", "raw", "0-360"))}


def cases(ctx):
    rng = ctx.rng
    quick = ctx.tier == "quick"
    import random as _r
    drng = core.Rng(4242)
    i = 0
    for nl in range(1, 60):
        for sgn in (1, -1):
            for par in (0, 1):
                for sfc in (False, True):
                    c = mkcase(drng, sgn * cprgen.band_mid(nl), drng.uniform(-180, 180), par, sfc)
                    if ctx.mine(i):
                        yield "ref", c
                    i += 1
    # directed: equator / greenwich / antimeridian crossings with corner references
    for lat0, lon0 in ((0.01, 10.0), (-0.01, -20.0), (30.0, 0.01), (-30.0, -0.01), (45.0, 179.99), (-45.0, -179.99),
                       (0.001, 179.999), (-0.001, 0.001), (89.99, 5.0), (-89.99, -5.0), (86.9, 100.0), (87.2, -100.0),
                       (87.0, 100.0), (-87.0, -100.0), (87.0, -179.9), (-87.0, 0.1)):
        for par in (0, 1):
            for sfc in (False, True):
                for oy in (-0.999, 0.999):
                    for ox in (-0.999, 0.999):
                        if ctx.mine(i):
                            yield "ref", mkcase(drng, lat0, lon0, par, sfc, offs=[[oy, ox], [-oy * 0.5, -ox]])
                        i += 1
    # the first grid rows next to the equator (latitude field 1, 2, 3 and all-ones ...): NL is 59.999999999998 there - a rounding
    # before the floor turns it into 60
    for par in (0, 1):
        for sfc in (False, True):
            step = 360.0 / (60 - par) / (4.0 if sfc else 1.0) / 131072.0
            for krow in (1, 2, 3, -1, -2, -3):
                for lon0 in (drng.uniform(-180, 180), drng.uniform(-180, 180), 77.7):
                    if ctx.mine(i):
                        yield "ref", mkcase(drng, krow * step, lon0, par, sfc, offs=[[0.3, 0.3], [-0.9, 0.9]])
                        ctx.hit("grid_rows_next_to_the_equator")
                    i += 1
    # zone-centre positions with references a hair inside the edge of the half-zone box
    for k in range(ctx.share(3000 if quick else 60000)):
        par, sfc = rng.randrange(2), rng.random() < 0.4
        Z = 360.0 / (60 - par) / (4.0 if sfc else 1.0)
        jmax = int(86.0 / Z)
        lat = Z * (rng.randint(-jmax, jmax - 1) + 0.5)
        nl = cpr.NL(lat)
        if cpr.near_transition(lat):
            continue
        W = 360.0 / max(nl - par, 1) / (4.0 if sfc else 1.0)
        lon = cprgen.wrap180(W * (rng.randint(0, int(360.0 / W) - 1) + 0.5))
        c = mkcase(rng, lat, lon, par, sfc)
        c["edge"] = {"dim": rng.choice(("lat", "lon")), "sgn": rng.choice((1, -1)), "eps": rng.choice((1e-9, 3e-9, 1e-8, 1e-7, 1e-6, 1e-5))}
        if c["edge"]["dim"] == "lat" and rng.random() < 0.5:
            # latitude only: the zone size is a constant (6 or 360/59 deg, a quarter on the surface), |ref| <= 90 has an ulp of
            # 1.4e-14 deg and the decoder's own ref/d_lat carries ~1e-14 deg of round-off, so 1e-12 is still strictly inside
            c["edge"]["eps"] = rng.choice((1e-12, 3e-12, 1e-11, 1e-10))
        yield "ref", c
    for k in range(ctx.share(4000 if quick else 40000)):
        zr = rng.choice(("a", "o", "ao", "ai", "oi", "aoi"))
        lat = rng.uniform(-0.7, 0.7) if "a" in zr else cprgen.rand_sphere_lat(rng)
        lon = rng.uniform(-0.7, 0.7) if "o" in zr else rng.uniform(-180, 180)
        if abs(lat) > 86.5:
            continue
        c = mkcase(rng, lat, lon)
        c["zref"] = zr
        yield "ref", c
    n = ctx.share(500000 if quick else 12000000)
    dl = cprgen.directed_lats(rng, n // 2 + 1)
    for k in range(n):
        lat = dl[k // 2] if k % 2 == 0 else cprgen.rand_sphere_lat(rng)
        c = mkcase(rng, lat, 0.0)
        c["p"][1] = cprgen.directed_lon(rng, lat, c["i"], c["surface"])
        yield "ref", c
