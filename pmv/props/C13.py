"""C13 - ADS-B status, intent and quality indicators (TC 19/28/29/31)."""
from __future__ import annotations

from ..probe import call
from ..ref import adsb as radsb
from ..ref import bits

LEVEL = "exploration"
BRANCH_TARGETS = ['pyModeS.decoder.bds.bds61:is_emergency', 'pyModeS.decoder.bds.bds62:selected_altitude', 'pyModeS.decoder.bds.bds62:target_altitude', 'pyModeS.decoder.bds.bds62:target_angle', 'pyModeS.decoder.bds.bds62:selected_heading', 'pyModeS.decoder.bds.bds62:tcas_operational', 'pyModeS.decoder.adsb:nuc_p', 'pyModeS.decoder.adsb:nic_v1', 'pyModeS.decoder.adsb:nic_v2', 'pyModeS.decoder.adsb:nac_p', 'pyModeS.decoder.adsb:sil']
TECHNIQUE = 'runtime monitoring: DO-260B ME builders (TC19/28/29 subtype 0+1/31) as oracle, exhaustive per-field sweeps, totality/monotonicity/domain monitors on look-ups'
LEVEL_TEXT = 'Every field value executed; look-up *values* are not compared with the standard (no trusted transcription offline) - structure only.'
EXHAUSTIVE = True
LEVEL_RULE = (
    "Every TC28/TC29(subtype 0 and 1)/TC31/TC19 accessor of pyModeS.adsb called on messages built forward by DO-260B field "
    "builders: each field swept over all its values (selected altitude 0..2047, baro 0..511, heading status x sign x "
    "0..255, target altitude 0..1023, target angle 0..511, every mode/TCAS/status bit, emergency 0..7, version 0..7, NACp, "
    "SIL, supplements) with all other bits random; subtype-mismatched accessors must raise RuntimeError; NUCp/NUCv/NIC/"
    "NACp/NACv/SIL look-ups called for every TC in 5..22 except 19 x supplements x version (totality, arity, monotonicity). "
    "Distinct = distinct message hashes."
)
EXHAUSTIVE_SUBDOMAINS = ["each TC29 subtype-1 field, each TC29 subtype-0 field, TC28 state 0..7 x subtype 0..1, TC31 version/"
                         "NACp/SIL/supplement bits, TC19 NACv 0..7, look-ups over TC x supplements x version"]
ASSUMPTIONS = ["values of the NUC/NIC/NAC/SIL tables are not compared with DO-260B (no trusted transcription offline); only "
               "totality, arity and monotonicity are monitored", "heading/track label polarity of target_angle is not asserted: "
               "only that it is a function of ME bit 37 taking two distinct values", "TC28 reserved emergency states 6-7 and "
               "subtype 0 with non-zero state bits are not judged for is_emergency"]
REQUIRED = ["distinct_messages_pushed_through_by_4_threads", "tc28", "mixed_supplement_types", "tc28_every_squawk_x_state", "emergency_true", "emergency_false", "v2_alt", "v2_baro", "v2_hdg_neg", "v2_hdg_none", "v2_modes_off", "v2_modes_on",
            "v1_alt", "v1_angle", "v1_modes", "v1_tcas", "tc31", "tc19q", "lookups", "mismatch_v1_on_v2", "mismatch_v2_on_v1"]

V2_ONLY = ["selected_altitude", "baro_pressure_setting", "selected_heading", "autopilot", "vnav_mode", "altitude_hold_mode",
           "approach_mode", "lnav_mode"]
V1_ONLY = ["target_altitude", "target_angle", "vertical_mode", "horizontal_mode", "tcas_ra", "emergency_status"]


def frame(ctx, me, df=None):
    rng = ctx.rng
    hx = bits.anypi(rng, "%028X" % bits.es_frame(df or rng.choice((17, 17, 18)), rng.randrange(8), rng.fill(24), me))
    return hx.lower() if rng.random() < 0.15 else hx


def feq(a, b, tol=1e-9):
    return a is not None and b is not None and not isinstance(a, bool) and abs(a - b) <= tol


def chk(ctx, name, hx, obs, ok, exp, key=None):
    ctx.ev()
    if obs[0] != "ok" or not ok:
        ctx.violation(key or ("%s-wrong" % name), frame=hx, api=name, expected=repr(exp), observed=repr(obs[1:])[:160])


def m_tc28(ctx, case):
    from pyModeS import adsb
    rng = ctx.rng
    for st in (0, 1):
        for state in range(8):
            for rep in range(case["reps"]):
                me = radsb.tc28(st, state if st == 1 else (0 if rep % 2 == 0 else state), rng.fill(13), rng.fill(32))
                hx = frame(ctx, me)
                state_eff = radsb.get(me, 9, 11)
                r = call(adsb.emergency_state, hx)
                chk(ctx, "emergency_state", hx, r, r[1:] == (state_eff,), state_eff)
                r = call(adsb.is_emergency, hx)
                if st == 1 and state <= 5:
                    exp = state != 0
                    chk(ctx, "is_emergency", hx, r, r[0] == "ok" and r[1] is exp, exp)
                    ctx.hit("emergency_true" if exp else "emergency_false")
                elif st == 0 and state_eff == 0:
                    chk(ctx, "is_emergency", hx, r, r[0] == "ok" and r[1] is False, False)
                else:
                    ctx.ev()
                    if r[0] != "ok" or not isinstance(r[1], bool):
                        ctx.violation("is_emergency-wrong", frame=hx, observed=r[1:], note="bool expected")
                ctx.nontrivial(("28", hx))
    ctx.hit("tc28")


def _squawk_table():
    """13-bit identity field -> 'ABCD', by running the forward interleaver of the reference over all digits and both X bits"""
    from ..ref import alt as ralt
    t = {}
    for a in range(8):
        for b in range(8):
            for c in range(8):
                for d in range(8):
                    for x in (0, 1):
                        t[ralt.identity_code13(a, b, c, d, x)] = "%d%d%d%d" % (a, b, c, d)
    return t


_SQ = _squawk_table()


def m_tc28grid(ctx, case):
    """every Mode A code field x every emergency state: the predicate reads the state field and nothing else (a "helpful"
    predicate that also looks at the squawk - 7500 / 7600 / 7700 - is wrong on 6 of 8192 code values only)"""
    from pyModeS import adsb
    rng = ctx.rng
    for sq in range(case["lo"], case["hi"]):
        for state in range(8):
            me = radsb.tc28(1, state, sq, rng.fill(32))
            hx = frame(ctx, me)
            r = call(adsb.is_emergency, hx)
            if state <= 5:
                exp = state != 0
                chk(ctx, "is_emergency", hx, r, r[0] == "ok" and r[1] is exp, exp)
            else:
                ctx.ev()
                if r[0] != "ok" or not isinstance(r[1], bool):
                    ctx.violation("is_emergency-wrong", frame=hx, observed=r[1:], note="bool expected")
            r = call(adsb.emergency_state, hx)
            chk(ctx, "emergency_state", hx, r, r[1:] == (state,), state)
            if state == sq % 8:
                # ... and the squawk of the same message: the four octal digits as transmitted, leading zeros included
                r = call(adsb.emergency_squawk, hx)
                exp = _SQ.get(sq)
                chk(ctx, "emergency_squawk", hx, r, r[0] == "ok" and r[1] == exp and type(r[1]) is str, exp)
        ctx.nontrivial(("28g", sq))
    ctx.hit("tc28_every_squawk_x_state")


def v2_expect(f):
    """f: dict of raw subtype-1 fields -> expected accessor results"""
    e = {}
    e["selected_altitude"] = (None, "N/A") if f["alt"] == 0 else ((f["alt"] - 1) * 32, "MCP/FCU" if f["alt_src"] == 0 else "FMS")
    e["baro_pressure_setting"] = None if f["baro"] == 0 else 800 + (f["baro"] - 1) * 0.8
    e["selected_heading"] = None if f["hs"] == 0 else (f["hsign"] * 256 + f["hdg"]) * 180.0 / 256.0
    for nm, bit in (("autopilot", "ap"), ("vnav_mode", "vnav"), ("altitude_hold_mode", "ah"), ("approach_mode", "app"), ("lnav_mode", "lnav")):
        e[nm] = None if f["ms"] == 0 else bool(f[bit])
    e["tcas_operational"] = bool(f["tcas"])
    return e


def m_v2(ctx, case):
    from pyModeS import adsb
    rng = ctx.rng
    for ov in case["fields"]:
        f = {"sil_sup": rng.randrange(2), "alt_src": rng.randrange(2), "alt": rng.randrange(2048), "baro": rng.randrange(512),
             "hs": rng.randrange(2), "hsign": rng.randrange(2), "hdg": rng.randrange(256), "nacp": rng.randrange(16),
             "nicb": rng.randrange(2), "sil": rng.randrange(4), "ms": rng.randrange(2), "ap": rng.randrange(2), "vnav": rng.randrange(2),
             "ah": rng.randrange(2), "adsr": rng.randrange(2), "app": rng.randrange(2), "tcas": rng.randrange(2), "lnav": rng.randrange(2),
             "resv": rng.randrange(4)}
        f.update(ov)
        me = radsb.tc29_v2(f["sil_sup"], f["alt_src"], f["alt"], f["baro"], f["hs"], f["hsign"], f["hdg"], f["nacp"], f["nicb"],
                           f["sil"], f["ms"], f["ap"], f["vnav"], f["ah"], f["adsr"], f["app"], f["tcas"], f["lnav"], f["resv"])
        hx = frame(ctx, me)
        e = v2_expect(f)
        for nm, exp in e.items():
            r = call(getattr(adsb, nm), hx)
            if nm == "selected_altitude":
                ok = r[0] == "ok" and isinstance(r[1], tuple) and tuple(r[1]) == exp
            elif isinstance(exp, float):
                ok = r[0] == "ok" and feq(r[1], exp)
            elif exp is None or isinstance(exp, bool):
                ok = r[0] == "ok" and r[1] is exp
            else:
                ok = r[0] == "ok" and r[1] == exp
            key = None
            if nm == "selected_heading" and not ok and f["hs"] == 1 and f["hsign"] == 1:
                key = "selected_heading-sign-bit-multiplies"
            chk(ctx, nm, hx, r, ok, exp, key)
        # quality fields carried by TC29
        r = call(adsb.nac_p, hx)
        chk(ctx, "nac_p", hx, r, r[0] == "ok" and isinstance(r[1], tuple) and len(r[1]) == 3 and r[1][0] == f["nacp"], f["nacp"])
        for ver in (None, 0, 1, 2):
            r = call(adsb.sil, hx, ver)
            base = ("hour" if f["sil_sup"] == 0 else "sample") if ver == 2 else "unknown"
            chk(ctx, "sil", hx, r, r[0] == "ok" and isinstance(r[1], tuple) and len(r[1]) == 3 and r[1][2] == base, ("sil", f["sil"], base))
        for nm in V1_ONLY:
            r = call(getattr(adsb, nm), hx)
            ctx.ev()
            if not (r[0] == "exc" and r[1] == "RuntimeError"):
                ctx.violation("subtype-guard-missing", frame=hx, api=nm, subtype=1, observed=r)
        ctx.hit("mismatch_v1_on_v2")
        ctx.hit("v2_alt")
        ctx.hit("v2_baro")
        if f["hs"] and f["hsign"]:
            ctx.hit("v2_hdg_neg")
        if not f["hs"]:
            ctx.hit("v2_hdg_none")
        ctx.hit("v2_modes_on" if f["ms"] else "v2_modes_off")
        ctx.nontrivial(("v2", hx))
    if ctx.rng.random() < 0.05:
        ctx.sample({"frame": hx, "fields": f, "expected": {k: repr(v) for k, v in e.items()}})


def m_v1(ctx, case):
    from pyModeS import adsb
    rng = ctx.rng
    labels = {}
    for ov in case["fields"]:
        f = {"vavail": rng.randrange(4), "atype": rng.randrange(2), "compat": rng.randrange(2), "acap": rng.randrange(4),
             "vmode": rng.randrange(4), "alt": rng.randrange(1024), "havail": rng.randrange(4), "angle": rng.randrange(512),
             "trkflag": rng.randrange(2), "hmode": rng.randrange(4), "nacp": rng.randrange(16), "nicb": rng.randrange(2),
             "sil": rng.randrange(4), "resv": rng.randrange(32), "tcas": rng.randrange(4), "emerg": rng.randrange(8)}
        f.update(ov)
        me = radsb.tc29_v1(f["vavail"], f["atype"], f["compat"], f["acap"], f["vmode"], f["alt"], f["havail"], f["angle"],
                           f["trkflag"], f["hmode"], f["nacp"], f["nicb"], f["sil"], f["resv"], f["tcas"], f["emerg"])
        hx = frame(ctx, me)
        r = call(adsb.target_altitude, hx)
        if f["vavail"] == 0:
            exp = (None, "N/A", "")
        else:
            exp = (-1000 + f["alt"] * 100, {1: "MCP/FCU", 2: "Holding mode", 3: "FMS/RNAV"}[f["vavail"]], "FL" if f["atype"] == 0 else "MSL")
        chk(ctx, "target_altitude", hx, r, r[0] == "ok" and isinstance(r[1], tuple) and tuple(r[1]) == exp, exp)
        r = call(adsb.target_angle, hx)
        ctx.ev()
        if f["havail"] == 0:
            if not (r[0] == "ok" and isinstance(r[1], tuple) and len(r[1]) == 3 and r[1][0] is None):
                ctx.violation("target_angle-wrong", frame=hx, expected="(None, ..)", observed=repr(r[1:]))
        else:
            src = {1: "MCP/FCU", 2: "Autopilot mode", 3: "FMS/RNAV"}[f["havail"]]
            if not (r[0] == "ok" and isinstance(r[1], tuple) and len(r[1]) == 3 and r[1][0] == f["angle"] and r[1][2] == src
                    and isinstance(r[1][1], str) and r[1][1]):
                ctx.violation("target_angle-wrong", frame=hx, expected=(f["angle"], "<label>", src), observed=repr(r[1:]))
            else:
                labels.setdefault(f["trkflag"], set()).add(r[1][1])
        r = call(adsb.vertical_mode, hx)
        exp = None if f["vmode"] == 0 else f["vmode"]
        chk(ctx, "vertical_mode", hx, r, r[0] == "ok" and r[1] == exp and not isinstance(r[1], bool), exp)
        r = call(adsb.horizontal_mode, hx)
        exp = None if f["hmode"] == 0 else f["hmode"]
        chk(ctx, "horizontal_mode", hx, r, r[0] == "ok" and r[1] == exp and not isinstance(r[1], bool), exp,
            "horizontal_mode-reads-data-available-bits")
        r = call(adsb.tcas_operational, hx)
        exp = (f["tcas"] >> 1) == 0
        chk(ctx, "tcas_operational", hx, r, r[0] == "ok" and r[1] is exp, exp)
        r = call(adsb.tcas_ra, hx)
        exp = bool(f["tcas"] & 1)
        chk(ctx, "tcas_ra", hx, r, r[0] == "ok" and r[1] is exp, exp)
        r = call(adsb.emergency_status, hx)
        chk(ctx, "emergency_status", hx, r, r[1:] == (f["emerg"],), f["emerg"])
        r = call(adsb.nac_p, hx)
        chk(ctx, "nac_p", hx, r, r[0] == "ok" and isinstance(r[1], tuple) and len(r[1]) == 3 and r[1][0] == f["nacp"], f["nacp"])
        r = call(adsb.sil, hx, rng.choice((None, 0, 1)))
        chk(ctx, "sil", hx, r, r[0] == "ok" and isinstance(r[1], tuple) and len(r[1]) == 3 and r[1][2] == "unknown", "unknown")
        for nm in V2_ONLY:
            r = call(getattr(adsb, nm), hx)
            ctx.ev()
            if not (r[0] == "exc" and r[1] == "RuntimeError"):
                ctx.violation("subtype-guard-missing", frame=hx, api=nm, subtype=0, observed=r)
        ctx.hit("mismatch_v2_on_v1")
        ctx.hit("v1_alt")
        ctx.hit("v1_angle")
        ctx.hit("v1_modes")
        ctx.hit("v1_tcas")
        ctx.nontrivial(("v1", hx))
    if len(labels) == 2:
        if any(len(v) != 1 for v in labels.values()) or labels[0] == labels[1]:
            ctx.violation("target_angle-label-not-a-function-of-bit-37", labels={k: sorted(v) for k, v in labels.items()})


def m_tc31(ctx, case):
    from pyModeS import adsb
    rng = ctx.rng
    for ov in case["fields"]:
        f = {"st": rng.randrange(2), "cc": rng.fill(16), "om": rng.fill(16), "ver": rng.randrange(8), "nics": rng.randrange(2),
             "nacp": rng.randrange(16), "gva": rng.randrange(4), "sil": rng.randrange(4), "nb": rng.randrange(2), "hrd": rng.randrange(2),
             "ss": rng.randrange(2), "resv": rng.randrange(2)}
        f.update(ov)
        me = radsb.tc31(f["st"], f["cc"], f["om"], f["ver"], f["nics"], f["nacp"], f["gva"], f["sil"], f["nb"], f["hrd"], f["ss"], f["resv"])
        hx = frame(ctx, me)
        r = call(adsb.version, hx)
        chk(ctx, "version", hx, r, r[1:] == (f["ver"],), f["ver"])
        r = call(adsb.nic_s, hx)
        chk(ctx, "nic_s", hx, r, r[1:] == (f["nics"],), f["nics"])
        r = call(adsb.nic_a_c, hx)
        nicc = (f["cc"] >> 4) & 1  # ME bit 20 = CC bit 12 of 16
        chk(ctx, "nic_a_c", hx, r, r[0] == "ok" and tuple(r[1]) == (f["nics"], nicc), (f["nics"], nicc))
        r = call(adsb.nac_p, hx)
        chk(ctx, "nac_p", hx, r, r[0] == "ok" and isinstance(r[1], tuple) and len(r[1]) == 3 and r[1][0] == f["nacp"], f["nacp"])
        for ver in (None, 0, 1, 2):
            r = call(adsb.sil, hx, ver)
            base = ("hour" if f["ss"] == 0 else "sample") if ver == 2 else "unknown"
            chk(ctx, "sil", hx, r, r[0] == "ok" and isinstance(r[1], tuple) and len(r[1]) == 3 and r[1][2] == base, base)
        ctx.nontrivial(("31", hx))
    ctx.hit("tc31")


def m_tc19q(ctx, case):
    from pyModeS import adsb
    rng = ctx.rng
    for nac in range(8):
        for rep in range(case["reps"]):
            me = radsb.tc19(rng.randrange(1, 5), rng.randrange(2), rng.randrange(1024), rng.randrange(2), rng.randrange(1024),
                            rng.randrange(2), rng.randrange(2), rng.randrange(512), rng.randrange(2), rng.randrange(128),
                            rng.randrange(2), rng.randrange(2), nac, rng.randrange(4))
            hx = frame(ctx, me)
            for nm in ("nuc_v", "nac_v"):
                r = call(getattr(adsb, nm), hx)
                chk(ctx, nm, hx, r, r[0] == "ok" and isinstance(r[1], tuple) and len(r[1]) == 3 and r[1][0] == nac, nac)
            ctx.nontrivial(("19q", hx))
    ctx.hit("tc19q")


# (type code, supplement) combinations that have a horizontal containment radius in DO-260B tables N-4 / N-11 as
# implemented at the pinned revision; a None for one of them means the look-up lost part of its domain
DOMAIN_V1 = {(5, 0), (6, 0), (7, 1), (9, 0), (10, 0), (11, 0), (11, 1), (12, 0), (13, 0), (13, 1), (14, 0), (15, 0), (16, 0),
             (16, 1), (17, 0), (20, 0), (21, 0)}
DOMAIN_V2 = {(5, 0), (6, 0), (7, 0), (7, 2), (8, 1), (8, 2), (8, 3), (9, 0), (10, 0), (11, 0), (11, 3), (12, 0), (12, 3), (13, 0),
             (13, 1), (13, 2), (13, 3), (14, 0), (15, 0), (16, 0), (16, 3), (17, 0)} | {(t, s) for t in (20, 21) for s in range(4)}


def monotone(ctx, name, rows):
    """rows: (category, bound) with non-None bounds: higher category never has a larger bound"""
    rows = [(c, b) for c, b in rows if c is not None and b is not None]
    for c1, b1 in rows:
        for c2, b2 in rows:
            if c1 > c2 and b1 > b2:
                ctx.violation("lookup-not-monotone", table=name, higher=[c1, b1], lower=[c2, b2])
                return


def m_lookups(ctx, case):
    from pyModeS import adsb
    rng = ctx.rng
    rows = {"nuc_p_HPL": [], "nuc_p_RCu": [], "nic_v1": [], "nic_v2": []}
    bytc = {"nuc_p": {}, "nic_v1": {}, "nic_v2": {}}
    seen = {}
    for tc in [t for t in range(5, 23) if t != 19]:
        for rep in range(case["reps"]):
            me = (tc << 51) | rng.fill(51)
            hx = frame(ctx, me)
            r = call(adsb.nuc_p, hx)
            ctx.ev()
            if r[0] != "ok" or not isinstance(r[1], tuple) or len(r[1]) != 4:
                ctx.violation("lookup-not-total", api="nuc_p", frame=hx, tc=tc, observed=r[1:])
            else:
                rows["nuc_p_HPL"].append((r[1][0], r[1][1]))
                bytc["nuc_p"].setdefault(tc, set()).add((r[1][0], r[1][1]))
                rows["nuc_p_RCu"].append((r[1][0], r[1][2]))
            for s in (0, 1):
                r = call(adsb.nic_v1, hx, s)
                ctx.ev()
                if r[0] != "ok" or not isinstance(r[1], tuple) or len(r[1]) != 3:
                    ctx.violation("lookup-not-total", api="nic_v1", frame=hx, tc=tc, nics=s, observed=r[1:])
                else:
                    rows["nic_v1"].append((r[1][0], r[1][1]))
                    bytc["nic_v1"].setdefault(tc, set()).add((r[1][0], r[1][1]))
                    seen[("nic_v1", tc, s)] = (r[1][0], r[1][1])
                    rb = call(adsb.nic_v1, hx, bool(s))
                    rs_ = call(adsb.nic_v1, hx, str(s))
                    ctx.ev(2)
                    if rs_ != r:
                        ctx.violation("lookup-differs-for-string-supplement", api="nic_v1", frame=hx, tc=tc, nics=s, with_int=r[1:], with_str=rs_[1:])
                    if rb != r:
                        ctx.violation("lookup-differs-for-bool-supplement", api="nic_v1", frame=hx, tc=tc, nics=s, with_int=r[1:], with_bool=rb[1:])
                for b in (0, 1):
                    r = call(adsb.nic_v2, hx, s, b)
                    ctx.ev()
                    if r[0] != "ok" or not isinstance(r[1], tuple) or len(r[1]) != 2:
                        ctx.violation("lookup-not-total", api="nic_v2", frame=hx, tc=tc, nica=s, nicbc=b, observed=r[1:])
                    else:
                        rows["nic_v2"].append((r[1][0], r[1][1]))
                        bytc["nic_v2"].setdefault(tc, set()).add((r[1][0], r[1][1]))
                        seen[("nic_v2", tc, s * 2 + b)] = (r[1][0], r[1][1])
                        # the supplement bits as bool (they are flags; bool is an int): same answer
                        rb = call(adsb.nic_v2, hx, bool(s), bool(b))
                        rs_ = call(adsb.nic_v2, hx, str(s), str(b))     # "int or string" per docstring
                        ctx.ev(2)
                        if rs_ != r:
                            ctx.violation("lookup-differs-for-string-supplement", api="nic_v2", frame=hx, tc=tc, nica=s, nicbc=b,
                                          with_int=r[1:], with_str=rs_[1:])
                        if rb != r:
                            ctx.violation("lookup-differs-for-bool-supplement", api="nic_v2", frame=hx, tc=tc, nica=s, nicbc=b,
                                          with_int=r[1:], with_bool=rb[1:])
                        ctx.hit("bool_supplements")
                        # the two supplements come from different places (NICa from an operational-status message decoded
                        # earlier - an int or numpy integer -, NICbc typed in or read from a file - a string): every MIX of
                        # the accepted forms means the same
                        import numpy as _np
                        forms = (int, str, bool, _np.int64, _np.uint8)
                        for fa in forms:
                            for fb in forms:
                                if fa is fb:
                                    continue
                                rm = call(adsb.nic_v2, hx, fa(s), fb(b))
                                ctx.ev()
                                if rm != r:
                                    ctx.violation("lookup-differs-for-mixed-supplement-types", api="nic_v2", frame=hx, tc=tc, nica=repr(fa(s)),
                                                  nicbc=repr(fb(b)), with_ints=r[1:], mixed=rm[1:])
                        ctx.hit("mixed_supplement_types")
            if 9 <= tc <= 18:
                r = call(adsb.nic_b, hx)
                ctx.ev()
                if r[1:] != ((me >> 48) & 1,):
                    ctx.violation("nic_b-wrong", frame=hx, observed=r[1:])
            ctx.nontrivial(("lk", hx))
    for k, v in rows.items():
        monotone(ctx, k, v)
    # the type code itself orders the accuracy classes: inside a group (5-8, 9-18, 20-22) a higher type code never
    # carries a higher category nor a tighter bound than a lower one
    for k, per in bytc.items():
        for grp in ((5, 6, 7, 8), tuple(range(9, 19)), (20, 21, 22)):
            for t1 in grp:
                for t2 in grp:
                    if t1 < t2:
                        for (c1, b1) in per.get(t1, ()):
                            for (c2, b2) in per.get(t2, ()):
                                if (c1 is not None and c2 is not None and c1 < c2) or (b1 is not None and b2 is not None and b1 > b2):
                                    ctx.violation("lookup-not-monotone-in-typecode", table=k, tc_low=[t1, c1, b1], tc_high=[t2, c2, b2])
    # domain: the supplement combinations for which a containment radius is defined must keep returning one
    for (api, tc, sup), r in sorted(seen.items()):
        want = (tc, sup) in (DOMAIN_V1 if api == "nic_v1" else DOMAIN_V2)
        if want and (r[0] is None or r[1] is None):
            ctx.violation("lookup-loses-domain-entry", api=api, tc=tc, supplement=sup, observed=r)
    # NACp / NACv / NUCv / SIL monotone over their whole code range
    nacp, nacp_v, sil_rows, nucv, nacv = [], [], [], [], []
    for n in range(16):
        hx = frame(ctx, radsb.tc31(0, 0, 0, 2, 0, n, 0, n % 4, 0, 0, 0, 0))
        r = call(adsb.nac_p, hx)
        s = call(adsb.sil, hx, 2)
        ctx.ev(2)
        if r[0] == "ok":
            nacp.append((r[1][0], r[1][1]))
            nacp_v.append((r[1][0], r[1][2]))
        if s[0] == "ok":
            sil_rows.append((n % 4, s[1][0]))
    for n in range(8):
        hx = frame(ctx, radsb.tc19(1, 0, 5, 0, 5, 0, 0, 5, 0, 5, 0, 0, n, 0))
        a, b = call(adsb.nuc_v, hx), call(adsb.nac_v, hx)
        ctx.ev(2)
        if a[0] == "ok":
            nucv.append((a[1][0], a[1][1]))
        if b[0] == "ok":
            nacv.append((b[1][0], b[1][1]))
    for k, v in (("nac_p_EPU", nacp), ("nac_p_VEPU", nacp_v), ("sil", sil_rows), ("nuc_v", nucv), ("nac_v", nacv)):
        monotone(ctx, k, v)
    # 'None exactly for no-data encodings': the categories DO-260B defines a bound for must keep returning one
    # (NACp 1-11 horizontal, 9-11 vertical; NACv / NUCv 1-4; SIL 1-3) and category 0 / reserved codes must not invent one
    for name, catrows, defined in (("nac_p_EPU", nacp, range(1, 12)), ("nac_p_VEPU", nacp_v, range(9, 12)), ("sil", sil_rows, range(1, 4)),
                                ("nuc_v", nucv, range(1, 5)), ("nac_v", nacv, range(1, 5))):
        for cat, bound in catrows:
            if cat in defined and bound is None:
                ctx.violation("lookup-loses-domain-entry", table=name, category=cat, observed=None)
            elif cat == 0 and bound is not None:
                ctx.violation("lookup-invents-bound-for-no-data-category", table=name, category=cat, observed=bound)
    for cat, bound in rows["nuc_p_HPL"] + rows["nuc_p_RCu"]:
        if cat is not None and 1 <= cat <= 9 and bound is None:
            ctx.violation("lookup-loses-domain-entry", table="nuc_p", category=cat, observed=None)
    ctx.hit("lookups")


def m_volthreads(ctx, case):
    """far more distinct TC31 / TC29 / TC19 messages than a 17-bit bounded memo holds through the quality accessors, from 4
    threads at once (see pmv/volume.py)"""
    from .. import volume
    from pyModeS import adsb

    def mk(r):
        me = (31 << 51) | (r.getrandbits(3) << 48) | r.getrandbits(48)
        me = (me & ~(7 << 13)) | (2 << 13)            # ADS-B version 2
        me = (me & ~(7 << 48)) | (r.randrange(2) << 48)   # subtype 0 / 1
        return "%028X" % bits.es_frame(17, 5, r.getrandbits(24), me)

    def oracle(name, msg):
        me = (int(msg, 16) >> 24) & ((1 << 56) - 1)
        return radsb.get(me, 41, 43) if name == "version" else radsb.get(me, 45, 48)

    def nacp(m):
        v = adsb.nac_p(m)
        return v[0] if isinstance(v, tuple) and len(v) == 3 else v      # (NACp, EPU, VEPU): the table values are judged by monitor tc31
    volume.run(ctx, [("version", adsb.version), ("nacp_code", nacp)], mk, oracle, total=case["total"])


NO_OBSERVE = ("volthreads",)
MONITORS = {"volthreads": m_volthreads, "tc28": m_tc28, "tc28grid": m_tc28grid, "v2": m_v2, "v1": m_v1, "tc31": m_tc31, "tc19q": m_tc19q, "lookups": m_lookups}


def cases(ctx):
    quick = ctx.tier == "quick"
    reps = 3 if quick else 8
    i = 0
    if ctx.mine(7):
        yield "volthreads", {"total": 240000 if quick else 400000}
    for rep in range(reps * 2):
        if ctx.mine(i):
            yield "tc28", {"reps": 6}
        i += 1

    for lo in range(0, 8192, 256):
        if ctx.mine(i):
            yield "tc28grid", {"lo": lo, "hi": lo + 256}
        i += 1

    def chunks(lst, n=128):
        for k in range(0, len(lst), n):
            yield lst[k:k + n]

    v2 = []
    v2 += [{"alt": a, "alt_src": a & 1} for a in range(2048)] + [{"alt": a, "alt_src": 1 - (a & 1)} for a in (0, 1, 2, 2047)]
    v2 += [{"baro": b} for b in range(512)]
    v2 += [{"hs": s, "hsign": g, "hdg": h} for s in (0, 1) for g in (0, 1) for h in range(256)]
    v2 += [{"ms": m, "ap": (x >> 0) & 1, "vnav": (x >> 1) & 1, "ah": (x >> 2) & 1, "app": (x >> 3) & 1, "lnav": (x >> 4) & 1, "tcas": (x >> 5) & 1}
           for m in (0, 1) for x in range(64)]
    v2 += [{"nacp": n, "sil": n % 4, "sil_sup": (n >> 2) & 1} for n in range(16)]
    v1 = []
    v1 += [{"vavail": a, "atype": t, "alt": n} for a in range(4) for t in (0, 1) for n in range(0, 1024, 1 if not quick else 3)]
    v1 += [{"havail": a, "trkflag": t, "angle": n} for a in range(4) for t in (0, 1) for n in range(0, 512, 1 if not quick else 2)]
    v1 += [{"vmode": v, "hmode": h, "havail": a, "tcas": t, "emerg": e} for v in range(4) for h in range(4) for a in range(4)
           for t in range(4) for e in range(8)]
    t31 = [{"ver": v, "nics": n, "ss": s, "cc": c << 4} for v in range(8) for n in (0, 1) for s in (0, 1) for c in (0, 1)]
    t31 += [{"nacp": n, "sil": s} for n in range(16) for s in range(4)]
    for rep in range(reps):
        for ch in chunks(v2):
            if ctx.mine(i):
                yield "v2", {"fields": ch}
            i += 1
        for ch in chunks(v1):
            if ctx.mine(i):
                yield "v1", {"fields": ch}
            i += 1
        for ch in chunks(t31):
            if ctx.mine(i):
                yield "tc31", {"fields": ch}
            i += 1
        if ctx.mine(i):
            yield "tc19q", {"reps": 8}
        i += 1
        if ctx.mine(i):
            yield "lookups", {"reps": 6}
        i += 1
