"""C01 - CRC-24: exact remainder, parity closure, error detection."""
from __future__ import annotations

import itertools

from ..probe import call, rebind
from ..ref import bits

LEVEL = "exploration"
BRANCH_TARGETS = ['pyModeS.py_common:crc', 'pyModeS.py_common:crc_legacy', 'pyModeS.extra.rtlreader:RtlReader._check_msg']
TECHNIQUE = 'runtime monitoring: reference-model oracle (bit-serial polynomial division) on real crc calls, icontract post-condition on internal calls, exhaustive error-pattern executions, offline syndrome checker'
LEVEL_TEXT = "Exploration: held on N observed executions. Every frame is judged by an independent remainder computation; error detection is executed for every pattern of weight 1-3 (quick) / 1-5 (thorough, 134 M real calls on 112 bits) and every burst offset x length; the space of frames itself (2^112) is sampled, so the claim is 'exact on everything observed', not a proof of the division loop."
LEVEL_RULE = (
    "Real calls of py_common.crc / crc_legacy / RtlReader._check_msg on generated frames: exact remainder vs "
    "bit-serial polynomial division on ints; encode closure; linearity; every error pattern of weight 1..3 "
    "(quick; +weight 4 @112 and weight 5 @56 in thorough) and every burst (offset x length<=24, interiors "
    "exhaustive up to length 10 quick / 16 thorough) applied to random valid frames. A case is non-trivial "
    "when the frame is not all-zero; distinct = distinct (monitor, frame, pattern-chunk) hashes."
)
EXHAUSTIVE_SUBDOMAINS = [
    "all error patterns of weight 1-3 on 56 and 112 bits (quick), weight 4 on 112 and weight 4-5 on 56 (thorough)",
    "all bursts of length<=10 (quick) / <=16 (thorough) at every offset",
    "all single-bit frames of both lengths",
]
ASSUMPTIONS = [
    "reference = bit-serial division by 0x1FFF409 on Python ints (pmv/ref/bits.py)",
    "weight-5 patterns on 112 bits (134M): executed for real in the thorough tier; the quick tier relies on an offline checker over the 112 recorded single-bit "
    "syndromes (sound together with the linearity monitor) plus random real executions",
    "pyModeS.common is the pure-Python module in this configuration; the C twin is covered by C15",
]
REQUIRED = ["distinct_messages_pushed_through_by_4_threads", "len56", "len112", "tail_text_echoed_in_payload", "sibling_frame_seen_before", "demodulated_df17_with_faded_bits", "encode_true", "encode_false", "legacy", "contract_internal_crc"]

_state = {}


def _sut():
    if "pms" in _state:
        return _state
    import pyModeS as pms
    from pyModeS import py_common
    import io, contextlib
    with contextlib.redirect_stdout(io.StringIO()):
        from pyModeS.extra import rtlreader
    _state["pms"] = pms
    _state["py"] = py_common
    _state["rtl"] = object.__new__(rtlreader.RtlReader)
    # contract on crc: evaluated on every call, also the internal ones made by icao()/interrogator()
    try:
        import icontract

        class CrcPostBroken(Exception):
            pass

        _state["contract_evals"] = 0
        _state["contract_bad"] = []

        def crc_is_remainder(msg, encode, result):
            _state["contract_evals"] += 1
            n = len(msg) * 4
            x = int(msg, 16)
            if encode:
                x &= ~0xFFFFFF
            if result != bits.polymod(x, n):
                _state["contract_bad"].append((msg, bool(encode), result))
            return True  # record, do not abort what is observed

        orig = py_common.crc
        wrapped = icontract.ensure(crc_is_remainder, error=CrcPostBroken)(orig)
        _state["rebound"] = rebind(orig, wrapped)
        _state["crc_orig"] = orig
    except ImportError:
        _state["contract_evals"] = None
    return _state


def _hex(x, n, case="upper"):
    s = "%0*X" % (n // 4, x)
    if case == "mixed":   # some letters upper, some lower (deterministic: by position and value)
        return "".join(c.lower() if (i * 7 + ord(c)) % 3 == 0 else c for i, c in enumerate(s))
    return s.lower() if case == "lower" else s


def m_exact(ctx, case):
    s = _sut()
    n = case["n"]
    x = int(case["x"], 16)
    hx = _hex(x, n, case.get("case", "upper"))
    ctx.hit("len%d" % n)
    if case.get("echo"):
        ctx.hit("tail_text_echoed_in_payload")
    if case.get("sibling"):
        # call history: just before the checksum, other library functions that use crc() internally see a SIBLING frame
        # (same leading 32 bits, other length / other tail) - the checksum of this frame must not depend on that
        rng = ctx.rng
        if n == 112:
            sib = hx[:8] + "%06X" % rng.getrandbits(24)
        else:
            sib = hx[:8] + "%020X" % rng.getrandbits(80)
        if hx.islower():
            sib = sib.lower()
        for fn in (s["pms"].icao, s["pms"].common.icao):
            call(fn, sib)
        call(s["py"].crc, sib, True)
        ctx.hit("sibling_frame_seen_before")
    for enc in (False, True):
        exp = bits.polymod(x & ~0xFFFFFF if enc else x, n)
        fns = [("crc", s["py"].crc)]
        if case.get("legacy"):
            fns.append(("crc_legacy", s["py"].crc_legacy))
            ctx.hit("legacy")
        for nm, fn in fns:
            r = call(fn, hx, enc)
            ctx.ev()
            ctx.hit("encode_true" if enc else "encode_false")
            if r[0] != "ok" or r[1] != exp:
                ctx.violation("%s-wrong-remainder" % nm, frame=hx, encode=enc, expected=exp, observed=r[1:])
    # public alias
    r = call(s["pms"].crc, hx)
    ctx.ev()
    if r[0] != "ok" or r[1] != bits.polymod(x, n):
        ctx.violation("crc-wrong-remainder", frame=hx, via="pyModeS.crc", observed=r[1:])
    if x:
        ctx.nontrivial(("exact", hx))
    ctx.sample({"monitor": "exact", "frame": hx, "crc": bits.polymod(x, n)}) if ctx.rng.random() < 0.001 else None


def m_closure(ctx, case):
    s = _sut()
    n = case["n"]
    data = int(case["data"], 16)
    crc = s["py"].crc
    base = data << 24
    exp = bits.parity(data, n)
    seen = set()
    for tail in case["tails"]:
        hx = _hex(base | tail, n)
        r = call(crc, hx, True)
        ctx.ev()
        if r[0] != "ok":
            ctx.violation("crc-raises", frame=hx, observed=r[1:])
            return
        seen.add(r[1])
    if seen != {exp}:
        ctx.violation("crc-encode-depends-on-parity-field-or-wrong", data=case["data"], n=n, expected=exp, observed=sorted(seen)[:4])
        return
    r = call(crc, _hex(base | exp, n))
    ctx.ev()
    if r != ("ok", 0):
        ctx.violation("crc-closure-nonzero", frame=_hex(base | exp, n), observed=r[1:])
    ctx.nontrivial(("closure", n, case["data"]))
    ctx.hit("closure")


def m_linear(ctx, case):
    s = _sut()
    n = case["n"]
    a, b = int(case["a"], 16), int(case["b"], 16)
    crc = s["py"].crc
    ra, rb, rab = crc(_hex(a, n)), crc(_hex(b, n)), crc(_hex(a ^ b, n))
    ctx.ev(3)
    if ra ^ rb != rab:
        ctx.violation("crc-not-linear", a=case["a"], b=case["b"], n=n)
    ctx.nontrivial(("lin", n, case["a"], case["b"]))
    ctx.hit("linear")


def _patterns(case):
    n = case["n"]
    if case["kind"] == "weight":
        w, first = case["w"], case["first"]
        # all patterns whose lowest flipped positions are `first` (tuple), rest above
        lo = first[-1] + 1 if first else 0
        base = 0
        for p in first:
            base |= 1 << p
        for rest in itertools.combinations(range(lo, n), w - len(first)):
            e = base
            for p in rest:
                e |= 1 << p
            yield e
    elif case["kind"] == "burst":
        L, off = case["L"], case["off"]
        if L == 1:
            yield 1 << off
            return
        if L == 2:
            yield 3 << off
            return
        for interior in case.get("interiors") or range(1 << (L - 2)):
            yield ((1 << (L - 1)) | (interior << 1) | 1) << off
    elif case["kind"] == "list":
        for e in case["patterns"]:
            yield int(e, 16)


def m_detect(ctx, case):
    s = _sut()
    n = case["n"]
    v = int(case["valid"], 16)
    crc = s["crc_orig"] if "crc_orig" in s else s["py"].crc  # contract is exercised elsewhere; keep this loop fast
    if crc(_hex(v, n)) != 0:
        ctx.violation("crc-closure-nonzero", frame=_hex(v, n))
        return
    cnt = 0
    for e in _patterns(case):
        cnt += 1
        hx = _hex(v ^ e, n)
        if crc(hx) == 0:
            ctx.violation("crc-misses-error-%s" % case["kind"], valid=_hex(v, n), error="%X" % e, n=n,
                          weight=bin(e).count("1"))
            break
    ctx.ev(cnt)
    ctx.hit("detect_%s_%d" % (case["kind"], n), cnt)
    ctx.hit("len%d" % n)
    if cnt:
        ctx.nontrivial(("detect", n, case["kind"], case.get("w"), case.get("first"), case.get("L"), case.get("off"), case["valid"]))


def m_checkmsg(ctx, case):
    s = _sut()
    hx = case["frame"]
    x = int(hx, 16)
    n = len(hx) * 4
    exp = bits.polymod(x, n) == 0
    r = call(s["rtl"]._check_msg, hx)
    ctx.ev()
    if r[0] != "ok":
        ctx.violation("check_msg-raises", frame=hx, observed=r[1:])
    elif bool(r[1]) != exp:
        ctx.violation("check_msg-accepts-bad-df17" if r[1] else "check_msg-rejects-good-df17", frame=hx)
    ctx.hit("checkmsg_valid" if exp else "checkmsg_invalid")
    ctx.nontrivial(("chk", hx))


def m_contract(ctx, case):
    """drive callers of crc so that the icontract post-condition sees internal calls"""
    s = _sut()
    if s["contract_evals"] is None:
        ctx.hit("contract_internal_crc")  # icontract unavailable: exact monitor already covers direct calls
        return
    before = s["contract_evals"]
    hx = case["frame"]
    from pyModeS.decoder import allcall
    call(s["pms"].icao, hx)
    call(allcall.interrogator, hx)
    call(s["rtl"]._check_msg, hx)
    ctx.ev(s["contract_evals"] - before)
    if s["contract_evals"] > before:
        ctx.hit("contract_internal_crc", s["contract_evals"] - before)
    while s["contract_bad"]:
        msg, enc, res = s["contract_bad"].pop()
        ctx.violation("crc-wrong-remainder", frame=msg, encode=enc, observed=res, via="contract-on-internal-call")
    ctx.nontrivial(("contract", hx))


def m_syndrome5(ctx, case):
    """offline checker: weight-5 patterns on 112 bits from recorded single-bit syndromes"""
    import numpy as np
    s = _sut()
    n = 112
    crc = s["py"].crc
    syn = [crc(_hex(1 << p, n)) for p in range(n)]
    ctx.ev(n)
    if any(syn[p] != bits.polymod(1 << p, n) for p in range(n)):
        ctx.violation("crc-wrong-remainder", note="single-bit syndrome differs")
        return
    S = np.array(syn, dtype=np.int64)
    a, b = case["pair"]
    base = S[a] ^ S[b]
    zero = 0
    cnt = 0
    for c in range(b + 1, n):
        bc = base ^ S[c]
        for d in range(c + 1, n - 1):
            x = bc ^ S[d] ^ S[d + 1:]
            cnt += x.size
            zero += int((x == 0).sum())
    ctx.hit("syndrome_w5_patterns", cnt)
    if zero:
        ctx.violation("crc-misses-error-weight", note="weight-5 syndrome combination is zero", pair=[a, b])
    ctx.nontrivial(("syn5", a, b))


def m_demod(ctx, case):
    """the frame check as the demodulator uses it: DF17 frames with one or two faded bits (sample level) must not come out
    of RtlReader._process_buffer with a non-zero checksum (workload and oracle shared with C19)"""
    from . import C19
    C19.m_buffer(ctx, case)
    ctx.hit("demodulated_df17_with_faded_bits")


def m_volthreads(ctx, case):
    """far more distinct frames than a 17-bit bounded memo holds, from 4 threads at once (see pmv/volume.py)"""
    from .. import volume
    import pyModeS

    def mk(r):
        n = 112 if r.random() < 0.7 else 56
        return "%0*X" % (n // 4, r.getrandbits(n))

    def oracle(name, msg):
        n = len(msg) * 4
        x = int(msg, 16)
        if name == "df":
            return min(x >> (n - 5), 24)
        if name == "typecode":
            return ((x >> (n - 37)) & 31) if (x >> (n - 5)) in (17, 18) and n == 112 else None
        return bits.polymod(x, n) if name == "crc" else bits.polymod(x >> 24 << 24, n)

    def tcode(m):
        return pyModeS.typecode(m) if len(m) == 28 else None
    # the frame-level helpers every application calls on every frame - the likeliest places for a memo
    volume.run(ctx, [("crc", pyModeS.crc), ("crc_encode", lambda m: pyModeS.crc(m, True)), ("df", pyModeS.df), ("typecode", tcode)], mk, oracle,
               total=case["total"])


NO_OBSERVE = ("volthreads",)
MONITORS = {"volthreads": m_volthreads, "demod": m_demod, "exact": m_exact, "closure": m_closure, "linear": m_linear, "detect": m_detect,
            "checkmsg": m_checkmsg, "contract": m_contract, "syndrome5": m_syndrome5}
OPTIONAL_MONITORS = ("syndrome5",)


def _valid(rng, n, df=None):
    data = rng.fill(n - 24)
    if df is not None:
        data = (data & ((1 << (n - 29)) - 1)) | (df << (n - 29))
    return bits.with_pi(data, n)


def cases(ctx):
    rng = ctx.rng
    quick = ctx.tier == "quick"
    i = 0
    if ctx.mine(5):
        yield "volthreads", {"total": 72000 if quick else 200000}      # x 2 call forms = 144000 distinct memo keys
    # --- exact: structured frames first (seed independent)
    structured = []
    for n in (56, 112):
        structured.append((n, 0))
        structured.append((n, (1 << n) - 1))
        for p in range(n):
            structured.append((n, 1 << p))
        for byte in (0x80, 0x01, 0xFF, 0xA5, 0x1A):
            for pos in range(n // 8):
                structured.append((n, byte << (8 * pos)))
        for p in range(n - 1):
            structured.append((n, 3 << p))
        for p in range(n - 24):       # shifted copies of the generator: valid code words of weight 13, the register runs empty
            structured.append((n, bits.GEN << p))
            structured.append((n, (bits.GEN << p) ^ bits.GEN))
            structured.append((n, (bits.GEN << p) ^ 1))
    for n, x in structured:
        if ctx.mine(i):
            yield "exact", {"n": n, "x": "%X" % x, "legacy": (i % 4 == 0), "case": "lower" if i % 3 == 0 else "upper"}
        i += 1
    nrand = ctx.share(150000 if quick else 600000)
    for k in range(nrand):
        n = rng.choice((56, 112))
        yield "exact", {"n": n, "x": "%X" % rng.fill(n), "legacy": (k % 10 == 0),
                        "case": ("lower", "upper", "upper", "mixed", "upper", "lower")[k % 6], "sibling": k % 4 == 1}
    # frames whose parity-field text also occurs inside the payload (a text-level operation on the tail must not touch it)
    for k in range(ctx.share(6000 if quick else 60000)):
        n = rng.choice((56, 112))
        hx = "%0*X" % (n // 4, rng.fill(n))
        p0 = rng.randrange(0, n // 4 - 11)
        hx = hx[:-6] + hx[p0:p0 + 6]
        yield "exact", {"n": n, "x": hx, "legacy": (k % 10 == 0), "case": "lower" if k % 3 == 0 else "upper", "echo": 1}
    # frames whose running remainder becomes a leading one followed by 45+ ones half-way through the division
    for k in range(ctx.share(4000 if quick else 60000)):
        n = rng.choice((56, 112))
        yield "exact", {"n": n, "x": "%X" % bits.frame_with_run_remainder(rng, n), "legacy": (k % 10 == 0), "case": ("upper", "lower", "mixed")[k % 3]}
    # strings with internal structure: periodic, two equal halves, mirrored
    for k in range(ctx.share(4000 if quick else 40000)):
        L = rng.choice((14, 28))
        if k % 3 == 0:
            per = rng.choice([p_ for p_ in (1, 2, 4, 7, 14) if L % p_ == 0])
            hx = ("%0*X" % (per, rng.getrandbits(4 * per))) * (L // per)
        elif k % 3 == 1:
            hx = ("%0*X" % (L // 2, rng.getrandbits(2 * L))) * 2
        else:
            h_ = "%0*X" % (L // 2, rng.getrandbits(2 * L))
            hx = h_ + h_[::-1]
        yield "exact", {"n": 4 * L, "x": hx, "legacy": (k % 10 == 0), "case": ("upper", "lower", "mixed")[k % 3], "sibling": k % 5 == 0}
    # --- demodulator path: DF17 frames, some with faded bits
    from . import C19
    for k in range(ctx.share(320 if quick else 6000)):
        c = C19.mkcase(rng, "R1", rng.choice((1, 2, 3)), 17)
        c.pop("second", None)
        for f in c["frames"]:
            if f.get("valid", True) and not f.get("weak") and rng.random() < 0.6:
                f["weak"] = sorted(rng.sample(range(5, 112), rng.choice((1, 1, 2))))
        yield "demod", c
    # --- closure / linearity
    for k in range(ctx.share(20000 if quick else 80000)):
        n = rng.choice((56, 112))
        yield "closure", {"n": n, "data": "%X" % rng.fill(n - 24),
                          "tails": [0, 0xFFFFFF, rng.fill(24), rng.fill(24)]}
        yield "linear", {"n": n, "a": "%X" % rng.fill(n), "b": "%X" % rng.fill(n)}
    # --- error detection, exhaustive by weight
    plan = []
    for n in (56, 112):
        plan.append((n, 1, ()))
        for a in range(n):
            plan.append((n, 2, (a,)))
            plan.append((n, 3, (a,)))
    if quick:
        for a in range(56):
            for b in range(a + 1, 56):
                plan.append((56, 4, (a, b)))
    else:
        for n in (56, 112):
            for a in range(n):
                for b in range(a + 1, n):
                    plan.append((n, 4, (a, b)))
        for a in range(56):
            for b in range(a + 1, 56):
                plan.append((56, 5, (a, b)))
        # every weight-5 pattern on 112 bits executed for real (134 M calls; the syndrome checker stays as a cross-check)
        for a in range(112):
            for b in range(a + 1, 112):
                plan.append((112, 5, (a, b)))
    for n, w, first in plan:
        if ctx.mine(i):
            yield "detect", {"n": n, "kind": "weight", "w": w, "first": list(first), "valid": "%X" % _valid(rng, n)}
        i += 1
    # --- bursts
    Lex = 10 if quick else 16
    nint = 12 if quick else 192
    for n in (56, 112):
        for L in range(1, 25):
            for off in range(0, n - L + 1):
                if ctx.mine(i):
                    c = {"n": n, "kind": "burst", "L": L, "off": off, "valid": "%X" % _valid(rng, n)}
                    if L > Lex:
                        c["interiors"] = [0, (1 << (L - 2)) - 1] + [rng.fill(L - 2) for _ in range(nint)]
                    yield "detect", c
                i += 1
    # --- random weight-5 real executions on 112 bits
    for k in range(ctx.share(200 if quick else 1200)):
        pats = []
        for _ in range(500 if quick else 3000):
            e = 0
            for p in rng.sample(range(112), 5):
                e |= 1 << p
            pats.append("%X" % e)
        yield "detect", {"n": 112, "kind": "list", "patterns": pats, "valid": "%X" % _valid(rng, 112)}
    # --- offline syndrome checker for all weight-5 patterns on 112 bits (thorough)
    if not quick:
        for a in range(112):
            for b in range(a + 1, 112):
                if ctx.mine(i):
                    yield "syndrome5", {"pair": [a, b]}
                i += 1
    # --- demodulator admission + contract on internal crc calls
    for k in range(ctx.share(10000 if quick else 40000)):
        v = _valid(rng, 112, df=17)
        yield "checkmsg", {"frame": "%028X" % v}
        e = 0
        for p in rng.sample(range(112 - 5), rng.choice((1, 2, 3))):
            e |= 1 << p  # keep DF bits intact so that the frame stays DF17
        yield "checkmsg", {"frame": "%028X" % (v ^ e)}
        # corruption confined to the PI field: the remainder is the error itself (small and large values)
        for e in (1, 2, 3, 1 << (k % 24), rng.fill(24) | 1):
            yield "checkmsg", {"frame": "%028X" % (v ^ e)}
        df = rng.choice((0, 4, 5, 11, 16, 20, 21))
        n = bits.df_len(df)
        f = bits.downlink(df, rng.fill(n - 29), n, rng.fill(24), rng.randrange(80))
        yield "contract", {"frame": "%0*X" % (n // 4, f)}
