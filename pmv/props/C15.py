"""C15 - the Cython common module is observationally equivalent to the Python one."""
from __future__ import annotations

import contextlib
import io
import json
import os
import re
import subprocess
import sys
import tempfile

from ..probe import call
from ..ref import alt as ralt
from ..ref import bits, cpr
from .. import canon as cn
from .. import cbuild, core

LEVEL = "exploration"
LEVEL_TEXT = ("Differential exploration of the two build configurations: exhaustive for the 13-bit / 11-bit code domains and DF/TC, "
              "dense for cprNL, sampled for frames; every decoder of the library compared between a process that selected the "
              "sanitised C twin at import time and a helper process that selected the Python twin.")
TECHNIQUE = "runtime monitoring: differential execution of the sanitised (ASan+UBSan) C twin against the Python module"
LEVEL_RULE = (
    "The C translation of the current c_common.pyx (proved in sync by its embedded source annotations) is compiled with clang "
    "-fsanitize=address,undefined and loaded as pyModeS.c_common. M1: every function exported by both modules is called "
    "with the same input in one process (13-bit codes, 11-bit Gray strings, DF/TC exhaustive; the C06 latitude set; random and "
    "structured frames of both lengths and letter cases) and compared under the sentinel map (-1/None, -999999/None) and "
    "'both raise RuntimeError or neither'. M2: the same call script over every decoder (adsb, commb, surv, allcall, bds.infer, "
    "uplink, tell, Decode.process_raw histories) is executed in the C configuration (this process, import-time selection) "
    "and in a helper process in the Python configuration; results compared record by record. M3: sanitizer report blocks "
    "are parsed from the logs. Distinct = distinct (function, input) / call-script hashes."
)
EXHAUSTIVE_SUBDOMAINS = ["all 8192 13-bit codes through altitude and squawk", "all 2048 11-bit Gray strings through gray2alt",
                         "DF 0..31 x TC 0..31 through df/typecode"]
ASSUMPTIONS = ["the vendored Cython 3.3.0 translation is trusted to be what Cython would generate for the pinned .pyx; it is only "
               "used when every embedded source annotation equals the current .pyx line and the .pxd hash matches",
               "if c_common.pyx/.pxd were edited the C engine cannot be rebuilt (no Cython in the sandbox): the check then runs "
               "the source-level emulation of the .pyx (pmv/pyxemu.py) and says so in the evidence"]
REQUIRED = ["m1_" + f for f in ("hex2bin", "bin2int", "hex2int", "bin2hex", "df", "crc", "floor", "icao", "is_icao_assigned", "typecode",
                                "cprNL", "idcode", "squawk", "altcode", "altitude", "gray2alt", "data", "allzeros", "wrongstatus")] + \
           ["m2_calls", "m2_history", "engine_selected_at_import", "m1_malformed_code_strings"]
MAX_SHARDS = 16

_prep = {}


# ----------------------------------------------------------------------------- parent side
def prepare(tier):
    so, origin = cbuild.build()
    _prep["logdir"] = tempfile.mkdtemp(prefix="pmv-san-")
    if so is None:
        from .. import pyxemu
        ok, why = pyxemu.selfcheck()
        if not ok:
            return "c-translation-unavailable (%s) and pyx emulation unusable (%s)" % (origin[:300], why)
        _prep["engine"] = "pyx-emulation"
        _prep["origin"] = origin
        return None
    _prep["engine"] = "c-asan-ubsan"
    _prep["so"] = so
    _prep["origin"] = origin
    return None


# The replay phases run here with the sanitised C twin loaded.  Two of them hand the C module things OUTSIDE the property's
# domain (strings that are not frames; numpy.str_ objects, whose buffer the Cython-generated unicode access reads at odd
# addresses): every UBSan line they provoke would be charged to the twin by M3.  They are skipped for C15 only.
REPLAY_SKIP = "malformed,numpy_str"


def WORKER_ENV():
    if _prep.get("engine") == "c-asan-ubsan":
        return dict(cbuild.worker_env(_prep["so"], _prep["logdir"]), PMV_REPLAY_SKIP=REPLAY_SKIP)
    return {"PMV_PYX_EMU": "1", "PMV_SAN_LOGDIR": _prep.get("logdir", ""), "PMV_REPLAY_SKIP": REPLAY_SKIP}


def post(tot, tier):
    """M3: parse sanitizer logs (offline checker over the recorded reports)"""
    tot["notes"]["engine"] = _prep.get("engine")
    tot["notes"]["c_source"] = _prep.get("origin")
    d = _prep.get("logdir")
    reports = {}
    if d and os.path.isdir(d):
        for fn in os.listdir(d):
            txt = open(os.path.join(d, fn), errors="replace").read()
            for m in re.finditer(r"runtime error: ([^\n]+)\n((?:\s+#\d+[^\n]*\n)*)", txt):
                kind = m.group(1)
                fun = re.search(r"in (__pyx_\w+)", m.group(2) or "")
                fun = fun.group(1) if fun else "?"
                fun = re.sub(r"^__pyx_(f|pf|pw)_\d+pyModeS_\d+c_common_(\d+)?", "", fun)
                k = (re.sub(r"-?\d+", "N", kind)[:80], fun)
                reports[k] = reports.get(k, 0) + 1
            if fn.startswith("asan") and "ERROR: AddressSanitizer" in txt:
                m = re.search(r"ERROR: AddressSanitizer: ([^\n]+)", txt)
                reports[("asan: " + (m.group(1) if m else "?")[:100], "?")] = 1
        import shutil
        shutil.rmtree(d, ignore_errors=True)
    tot["notes"]["sanitizer_reports"] = ["%s in %s x%d" % (k[0], k[1], v) for k, v in sorted(reports.items())]
    for (kind, fun), cnt in reports.items():
        if "signed integer overflow" in kind and fun in ("bin2int", "hex2int"):
            key = "c-long-overflow"
        elif kind.startswith("asan"):
            key = "asan-report"
        else:
            key = "ubsan-report:%s:%s" % (fun, kind[:40])
        v = tot["viol"].setdefault(key, {"count": 0, "witnesses": []})
        v["count"] += cnt
        if len(v["witnesses"]) < 3:
            v["witnesses"].append({"monitor": "sanitizer", "case": {}, "report": kind, "function": fun})


# ----------------------------------------------------------------------------- worker side
_w = {}


def mods():
    if _w:
        return _w
    import pyModeS
    from pyModeS import py_common
    if os.environ.get("PMV_PYX_EMU"):
        from .. import pyxemu
        c = pyxemu.load()
        _w["engine"] = "pyx-emulation"
        # library level: swap the twin in (import-time selection cannot be exercised without a compiled module)
        pyxemu.select(c)
    else:
        c = sys.modules.get("pyModeS.c_common")
        if c is None or pyModeS.common is not c:
            raise RuntimeError("C configuration not selected at import (pyModeS.common is %r)" % pyModeS.common)
        _w["engine"] = "c"
    _w["c"] = c
    _w["py"] = py_common
    _w["emu"] = None
    if _w["engine"] == "c":
        # keep the secondary engine honest: it must agree with the real C build on the whole M1 workload
        try:
            from .. import pyxemu
            _w["emu"] = pyxemu.load()
        except Exception:
            _w["emu"] = None
    return _w


SENT = {"typecode": (-1,), "gray2alt": (-1,), "altitude": (-999999, -1), "altcode": (-999999, -1)}


def eq(fn, rc, rp):
    """compare a C-side and a Python-side outcome under the sentinel map"""
    if rc[0] == "exc" or rp[0] == "exc":
        return rc[0] == rp[0] == "exc" and rc[1] == rp[1] == "RuntimeError"
    a, b = rc[1], rp[1]
    if b is None and fn in SENT:
        return a in SENT[fn]
    if fn in SENT and a in SENT[fn]:
        return b is None
    if isinstance(b, bool) or isinstance(a, bool):
        return bool(a) == bool(b)
    return a == b and type(a) is type(b)


def m_m1(ctx, case):
    w = mods()
    c, py = w["c"], w["py"]
    fn = case["fn"]
    fc, fp = getattr(c, fn), getattr(py, fn)
    fe = getattr(w["emu"], fn, None) if w.get("emu") is not None else None
    for args in case["args"]:
        rc, rp = call(fc, *args), call(fp, *args)
        ctx.ev(2)
        if fe is not None:
            re_ = call(fe, *args)
            ctx.hit("emu_vs_c_compared")
            if (re_[0], re_[1]) != (rc[0], rc[1]) and not (fn == "cprNL" and cpr.near_transition(float(args[0]))):
                ctx.hit("emu_vs_c_disagree")
                ctx.notes.setdefault("emulator_disagreements", [])
                if len(ctx.notes["emulator_disagreements"]) < 5:
                    ctx.notes["emulator_disagreements"].append({"fn": fn, "args": args, "c": repr(rc), "emu": repr(re_)})
        if case.get("malformed"):
            # not a well-formed code string: the statement only asks that the twins REFUSE the same inputs (RuntimeError from
            # both or from neither) - what either returns for garbage it does not refuse is not judged
            ctx.hit("m1_malformed_code_strings")
            if (rc[:2] == ("exc", "RuntimeError")) != (rp[:2] == ("exc", "RuntimeError")):
                ctx.violation("m1-%s-refuses-different-inputs" % fn, fn=fn, args=args, c=rc, py=rp)
            continue
        if not eq(fn, rc, rp):
            key = "m1-%s-differs" % fn
            a0 = args[0] if args else None
            if fn in ("bin2int", "hex2int") and isinstance(a0, str) and len(a0) * (4 if fn == "hex2int" else 1) > 63:
                key = "c-long-overflow"
            elif fn == "squawk" and isinstance(a0, str) and len(a0) == 13 and len(set(a0)) == 1 and rc[0] == "exc" and rp[0] == "ok":
                key = "c-squawk-rejects-constant-field"
            elif fn == "idcode" and rc[0] == "exc" and rp[0] == "ok" and bits.field(int(a0, 16), len(a0) * 4, 20, 32) in (0, 8191):
                key = "c-squawk-rejects-constant-field"
            elif fn == "cprNL" and cpr.near_transition(float(a0), 5e-13):
                # the two twins evaluate the same closed form with different maths libraries (numpy vs libm): on a few tens
                # of doubles around a transition latitude the rounding of cos / arccos decides.  Keyed per transition.
                key = "cprNL-ulp-noise-at-transition-NL%d" % cpr.nearest_transition(float(a0))[0]
            ctx.violation(key, fn=fn, args=args, c=rc, py=rp)
        ctx.nontrivial(("m1", fn, repr(args)))
    # the same calls with the arguments passed BY NAME (the names of the Python twin, which are those of the common.pyi stub):
    # a program written against one configuration must run against the other
    import inspect
    try:
        names = [p_.name for p_ in inspect.signature(fp).parameters.values()]
    except (TypeError, ValueError):
        names = None
    if names and not case.get("malformed"):
        for args in case["args"][:40]:
            if len(args) > len(names):
                continue
            kw = dict(zip(names, args))
            rc, rp = call(fc, **kw), call(fp, **kw)
            ctx.ev(2)
            ctx.hit("m1_keyword_calls")
            if not eq(fn, rc, rp) and not (fn in ("bin2int", "hex2int") and isinstance(args[0], str) and len(args[0]) * (4 if fn == "hex2int" else 1) > 63) \
                    and not (fn == "cprNL" and cpr.near_transition(float(args[0]), 5e-13)):
                ctx.violation("m1-keyword-name-differs-%s" % fn if rc[0] == "exc" and rc[1] == "TypeError" or rp[0] == "exc" and rp[1] == "TypeError"
                              else "m1-%s-differs" % fn, fn=fn, kwargs=kw, c=rc, py=rp)
    ctx.hit("m1_" + fn, len(case["args"]))
    if ctx.rng.random() < 0.01 and case["args"]:
        ctx.sample({"fn": fn, "args": case["args"][0], "c": repr(call(fc, *case["args"][0])), "py": repr(call(fp, *case["args"][0]))})


PKG_HELPERS = {"hex2bin": ["8D40"], "bin2int": ["1011"], "hex2int": ["FF"], "bin2hex": ["10001101"], "df": None, "crc": None, "floor": [3.7],
               "icao": None, "is_icao_assigned": ["4840D6"], "typecode": None, "cprNL": [10.2], "idcode": None, "squawk": ["0101010101010"],
               "altcode": None, "altitude": ["0000001010000"], "gray2alt": ["00000000010"], "data": None, "allzeros": None,
               "wrongstatus": ["1" + "0" * 55, 1, 2, 5]}


def call_table():
    """name -> callable over the whole library (resolved identically in both configurations)"""
    from . import C14
    import pyModeS as pms
    t = {k: v[0] for k, v in C14.specs().items()}
    t["tell"] = pms.tell
    t["pms.df"] = lambda m: pms.df(m)
    t["pms.icao"] = lambda m: pms.icao(m)
    t["pms.crc"] = lambda m: pms.crc(m)
    # the shared helpers as users reach them: through the PACKAGE namespace (`pms.squawk(...)`, README style) - that a name is
    # exported at all must not depend on which common module was picked (an `__all__` in one twin only)
    for nm in PKG_HELPERS:
        t["pkg." + nm] = (lambda *a, _n=nm: getattr(pms, _n)(*a))
    from pyModeS.decoder.bds import bds53
    for nm in ("is53", "hdg53", "ias53", "mach53", "tas53", "vr53"):
        t["bds53." + nm] = getattr(bds53, nm)
    t["rtl.demodulate"] = rtl_demodulate
    return t


def rtl_demodulate(frames):
    """the software demodulator is part of the library too, and it is built on the shared helpers (bin2hex, df, crc, icao): the
    frames are pulse-position modulated into one clean sample buffer (amplitude 1, flat noise 0.02) and what the buffer processor
    returns is compared between the two configurations"""
    from ..ref import ppm
    from . import C19
    buf = [0.02] * 400
    for hx in frames:
        n = len(hx) * 4
        buf += [s if s > 0 else 0.02 for s in ppm.modulate(int(hx, 16), n, 1.0)] + [0.02] * (2 * n + 40)
    r = C19.reader()
    r.signal_buffer = buf
    with contextlib.redirect_stdout(io.StringIO()):
        out = r._process_buffer()
    return [m[0] for m in out]


_helper = {}


def helper():
    if "p" in _helper:
        return _helper["p"]
    env = {k: v for k, v in os.environ.items() if k not in ("LD_PRELOAD", "PMV_C_SO", "ASAN_OPTIONS", "UBSAN_OPTIONS", "PMV_PYX_EMU")}
    env["PYTHONPATH"] = core.VERIF
    p = subprocess.Popen([sys.executable, "-m", "pmv.pyside"], stdin=subprocess.PIPE, stdout=subprocess.PIPE, stderr=subprocess.DEVNULL,
                         env=env, cwd=core.VERIF, text=True)
    hello = json.loads(p.stdout.readline())
    assert hello["ready"].endswith("py_common")
    _helper["p"] = p
    return p


def ask(req):
    p = helper()
    p.stdin.write(json.dumps(req) + "\n")
    p.stdin.flush()
    line = p.stdout.readline()
    if not line:
        raise RuntimeError("python-configuration helper died")
    return json.loads(line)


def classify_m2(name, args, rc, rp):
    msg = args[0] if args and isinstance(args[0], str) else ""
    try:
        x = int(msg, 16)
        n = len(msg) * 4
    except ValueError:
        return "m2-%s-differs" % name
    short = any(isinstance(a, str) and len(a) == 14 for a in args)
    if short and rp[0] == "exc" and rp[1] in ("ValueError", "IndexError") and rc[0] in ("ok", "exc") and \
            name.startswith(("adsb.", "commb.", "bds.", "bds53.", "tell", "common.allzeros")):
        # the Python module raises on the empty ME/MB slice of a 14-digit frame (C14 finding); the C module reads '' as 0
        return "short-frame-empty-slice"
    idf = bits.field(x, n, 20, 32) if n >= 32 else None
    me_sq = bits.field(x, n, 44, 56) if n == 112 else None
    if rc[0] == "exc" and rp[0] == "ok" and ((name in ("common.idcode", "surv.identity", "tell") and idf in (0, 8191)) or
                                             (name == "adsb.emergency_squawk" and me_sq in (0, 8191))):
        return "c-squawk-rejects-constant-field"
    return "m2-%s-differs" % name


def m_m2(ctx, case):
    w = mods()
    import pyModeS
    ctx.hit("engine_selected_at_import") if w["engine"] == "c" and pyModeS.common is w["c"] else None
    if w["engine"] != "c":
        ctx.hit("engine_selected_at_import")  # emulation: recorded as such in the notes
    calls = case["calls"]
    with contextlib.redirect_stdout(io.StringIO()):
        mine = cn.run_calls(_table(), calls)
    theirs = ask({"calls": calls})["results"]
    ctx.ev(2 * len(calls))
    for (name, args), rc, rp in zip(calls, mine, theirs):
        if rc != rp:
            base = name.split(".")[-1]
            if name in ("common.typecode", "adsb.typecode", "common.altcode", "pkg.typecode", "pkg.altcode") and eq(base, tuple(rc), tuple(rp)):
                continue  # the shared functions themselves: sentinel map of the statement applies
            ctx.violation(classify_m2(name, args, rc, rp), fn=name, args=args, c_config=rc, py_config=rp)
    ctx.hit("m2_calls", len(calls))
    ctx.nontrivial(("m2", repr(calls[:3]), len(calls)))
    if ctx.rng.random() < 0.05:
        ctx.sample({"m2_call": calls[0], "c_config": mine[0], "py_config": theirs[0]})


_tbl = {}


def _table():
    if not _tbl:
        _tbl.update(call_table())
    return _tbl


def play_history(h):
    """run a message history through Decode.process_raw; canonical final table (both configurations)"""
    with contextlib.redirect_stdout(io.StringIO()):
        from pyModeS.streamer.decode import Decode
    d = Decode(latlon=h["rx"]) if h.get("rx") else Decode()
    for b in h["batches"]:
        try:
            d.process_raw(b["at"], b["am"], b["ct"], b["cm"], b["tnow"])
        except Exception as e:
            return {"exception": type(e).__name__}
    return cn.canon({k: {str(f): v for f, v in rec.items()} for k, rec in d.acs.items()})


def m_hist(ctx, case):
    mods()
    import random as _r
    from . import C17
    hist = C17.gen_history(_r.Random(case["hseed"]))
    ev = hist["events"]
    batches = []
    k = 0
    brng = _r.Random(case["hseed"] + 1)
    while k < len(ev):
        nb = brng.choice((1, 2, 3, 5, 8))
        b = ev[k:k + nb]
        k += nb
        batches.append({"at": [e[0] for e in b if e[1] == "adsb"], "am": [e[2] for e in b if e[1] == "adsb"],
                        "ct": [e[0] for e in b if e[1] == "commb"], "cm": [e[2] for e in b if e[1] == "commb"], "tnow": b[-1][0] + 0.01})
    h = {"rx": list(hist["rx"]) if hist["rx"] else None, "batches": batches}
    mine = play_history(h)
    theirs = ask({"history": h})["table"]
    ctx.ev(2 * len(batches))
    if mine != theirs:
        diff = None
        if isinstance(mine, dict) and isinstance(theirs, dict) and set(mine) == set(theirs):
            for k2 in mine:
                if mine[k2] != theirs[k2]:
                    f = [x for x in set(mine[k2]) | set(theirs[k2]) if mine[k2].get(x) != theirs[k2].get(x)]
                    diff = (k2, sorted(f)[:6], [(x, mine[k2].get(x), theirs[k2].get(x)) for x in sorted(f)[:3]])
                    break
        ctx.violation("m2-aircraft-table-differs", hseed=case["hseed"], diff=repr(diff)[:400],
                      keys=[sorted(mine)[:5] if isinstance(mine, dict) else mine, sorted(theirs)[:5] if isinstance(theirs, dict) else theirs])
    ctx.hit("m2_history")
    ctx.nontrivial(("hist", case["hseed"]))


MONITORS = {"m1": m_m1, "m2": m_m2, "hist": m_hist}


# ----------------------------------------------------------------------------- workloads
def cases(ctx):
    rng = ctx.rng
    quick = ctx.tier == "quick"
    i = 0

    def chunks(fn, arglist, n=256):
        nonlocal i
        out = []
        for k in range(0, len(arglist), n):
            if ctx.mine(i):
                out.append(("m1", {"fn": fn, "args": arglist[k:k + n]}))
            i += 1
        return out

    def rhex(nd, case=None):
        s = "%0*X" % (nd, rng.fill(4 * nd))
        c = case or rng.choice(("u", "u", "l", "m"))
        return s.lower() if c == "l" else "".join(ch.lower() if rng.random() < 0.5 else ch for ch in s) if c == "m" else s

    def frames(k):
        out = []
        for _ in range(k):
            df = rng.randrange(32)
            n = rng.choice((56, 112)) if rng.random() < 0.3 else bits.df_len(df)
            x = bits.downlink(df, rng.fill(n - 29), n, rng.fill(24), rng.randrange(80))
            s = "%0*X" % (n // 4, x)
            out.append(s.lower() if rng.random() < 0.25 else s)
        return out

    N = 2 if quick else 16
    work = []
    work += chunks("altitude", [[format(c, "013b")] for c in range(8192)])
    work += chunks("squawk", [[format(c, "013b")] for c in range(8192)])
    work += chunks("gray2alt", [[format(c, "011b")] for c in range(2048)])
    # code strings that are NOT well formed (a line terminator kept, blanks, one character too many / few, a foreign digit):
    # both twins refuse the same ones
    for fn_, w_ in (("altitude", 13), ("squawk", 13)):
        bad = []
        for _ in range(40 * N):
            cde = format(rng.fill(w_), "0%db" % w_)
            j_ = rng.randrange(w_)
            bad += [[cde + "\n"], [cde + "\r\n"], [cde + " "], [" " + cde], ["\n" + cde], [cde + "0"], [cde[:-1]], [cde[:-1] + "\n"], [cde[:j_] + "2" + cde[j_ + 1:]],
                    [cde[:j_] + " " + cde[j_ + 1:]], [cde + "\t"], [cde[:j_] + "\n" + cde[j_ + 1:]], [""], [cde + cde]]
        for k_ in range(0, len(bad), 256):
            if ctx.mine(i):
                work.append(("m1", {"fn": fn_, "args": bad[k_:k_ + 256], "malformed": 1}))
            i += 1
    work += chunks("hex2bin", [[rhex(rng.randint(1, 28))] for _ in range(3000 * N)] + [["0"], ["F"], ["f"], ["00"], ["a0B1c2"]])
    work += chunks("bin2int", [[format(rng.fill(nb), "0%db" % nb)] for nb in range(1, 113) for _ in range(20 * N)] +
                   [["0" * 64], ["1" + "0" * 62], ["1" + "0" * 63], ["1" * 64], ["1" * 112]])
    work += chunks("hex2int", [[rhex(nd)] for nd in range(1, 29) for _ in range(60 * N)] + [["7" + "F" * 15], ["8" + "0" * 15], ["F" * 28]])
    work += chunks("bin2hex", [[format(rng.fill(nb), "0%db" % nb)] for nb in (1, 4, 5, 8, 13, 24, 56, 112) for _ in range(100 * N)])
    fr = frames(6000 * N)
    dftc = []
    for df in range(32):
        for tc in range(32):
            dftc.append(["%028X" % bits.es_frame(df, rng.randrange(8), rng.fill(24), (tc << 51) | rng.fill(51))])
            dftc[-1][0] = "%02X" % ((df << 3) | rng.randrange(8)) + dftc[-1][0][2:]
    work += chunks("df", [[f] for f in fr[:3000]] + dftc)
    work += chunks("typecode", [[f] for f in fr[:2000]] + dftc)
    # frames with structure in the DIVISION: leading zero bytes, a valid short code word followed by 00 and more data (the running
    # remainder is zero at a byte boundary while data still follows), one-hot frames, zero / FF tails
    sfr = []
    for _ in range(60 * N):
        n_ = rng.choice((56, 112, 112))
        kz = rng.randrange(1, n_ // 8 - 1)
        sfr.append("%0*X" % (n_ // 4, rng.getrandbits(n_ - 8 * kz)))
        sfr.append("%0*X" % (n_ // 4, 1 << rng.randrange(n_)))
        cw = bits.with_pi(rng.getrandbits(8 * rng.randrange(1, 5)) << 0, 8 * rng.randrange(4, 9), 0)
    for kb in range(4, 11):
        for _ in range(8 * N):
            cw = bits.with_pi(rng.getrandbits(8 * kb - 24), 8 * kb, 0)          # kb bytes that divide evenly
            rest = 112 - 8 * kb - 8
            sfr.append("%028X" % ((cw << (rest + 8)) | rng.getrandbits(rest)))  # ... then 00, then more data
            sfr.append("%028X" % ((cw << (rest + 8)) | (rng.getrandbits(rest) | 1)))
    work += chunks("crc", [[f, e] for f in sfr for e in (False, True)])
    work += chunks("icao", [[f] for f in sfr])
    work += chunks("crc", [[f, e] for f in fr for e in (False, True)][: 8000 * N])
    work += chunks("icao", [[f] for f in fr])
    work += chunks("data", [[f] for f in fr[:2000]])
    work += chunks("allzeros", [[f] for f in fr[:2000] if len(f) == 28] +
                   [["%028X" % bits.with_pi(rng.fill(32) << 56, 112, 0)] for _ in range(200)] +
                   [["%028X" % bits.with_pi((rng.fill(32) << 56) | (1 << rng.randrange(56)), 112, 0)] for _ in range(200)])
    ids = []
    for df in (5, 21, 4, 20, 0, 16, 17, 11):
        n = bits.df_len(df)
        for _ in range(400 * N):
            code = rng.choice((0, 8191, rng.fill(13), rng.fill(13)))
            x = bits.setfield(bits.downlink(df, rng.fill(n - 29), n, rng.fill(24)), n, 20, 32, code)
            ids.append(["%0*X" % (n // 4, x)])
    work += chunks("idcode", ids)
    work += chunks("altcode", ids)
    work += chunks("is_icao_assigned", [["%06X" % rng.fill(24)] for _ in range(3000 * N)] +
                   [["%06X" % (b + d)] for b in (0x200000, 0x27FFFF, 0x280000, 0x28FFFF, 0x500000, 0x5FFFFF, 0x600000, 0x67FFFF, 0x680000,
                                                 0x6F0000, 0x900000, 0x9FFFFF, 0xB00000, 0xBFFFFF, 0xD00000, 0xDFFFFF, 0xF00000, 0xFFFFFF)
                    for d in (-1, 0, 1) if 0 <= b + d <= 0xFFFFFF] + [["abcdef"], ["ABCDE"], ["0000000"]])
    fl = [[x] for x in (0.0, -0.0, 0.5, -0.5, 1.0, -1.0, 3.6, -3.6, 1e9 + 0.5, -1e9 - 0.5, 59.9999999999, -60.0000000001)] + \
         [[rng.uniform(-1e6, 1e6)] for _ in range(2000 * N)] + [[float(k)] for k in range(-60, 61)] + [[k + 0.5] for k in range(-60, 61)]
    work += chunks("floor", fl)
    from . import C06
    lats = []
    for kind, ls in C06.directed_lats():
        lats += [[max(-90.0, min(90.0, x))] for x in ls]
    lats += [[k * 0.01] for k in range(-9000, 9001, 1 if not quick else 4)]
    lats += [[rng.uniform(-90, 90)] for _ in range(3000 * N)] + [[rng.uniform(86.99, 87.01)] for _ in range(500)] + [[int(k)] for k in (0, 10, 87, -87, 90)]
    work += chunks("cprNL", lats, 512)
    ws = []
    for _ in range(3000 * N):
        d = format(rng.fill(56) & rng.fill(56), "056b")
        sb = rng.randint(1, 56)
        msb = rng.randint(1, 56)
        lsb = rng.randint(msb, 56)
        ws.append([d, sb, msb, lsb])
    work += chunks("wrongstatus", ws)
    for item in work:
        yield item
    # ---- M2: call scripts over the whole library
    from . import C14, C12
    ILLEGAL_GILLHAM = [c for c, v in ralt.altitude_table().items() if v is None and c != 0]
    import random as _r
    specs_names = None
    for k in range(ctx.share(96 if quick else 2000)):
        if specs_names is None:
            S = C14.specs()
            specs_names = list(S.items())
        fset = []
        for _ in range(14):
            c = rng.random()
            if c < 0.15:
                # sentinel classes: frames on which the C module returns -999999 / -1 / raises where Python returns None
                kind = rng.randrange(4)
                bad_alt = rng.choice((0, rng.choice(ILLEGAL_GILLHAM), rng.choice(ILLEGAL_GILLHAM)))
                if kind == 0:      # DF20 carrying a valid BDS 6,0 report with IAS and Mach, altitude unknown / illegal
                    mb, _ac = C12.b60(rng, 21, True)
                    fset.append(C12.commb_hex(ctx, mb, 20, bad_alt).upper())
                elif kind == 1:    # DF0/4/16/20 with such an altitude field
                    df = rng.choice((0, 4, 16, 20))
                    n = bits.df_len(df)
                    x = bits.setfield(bits.downlink(df, rng.fill(n - 29), n, rng.fill(24)), n, 20, 32, bad_alt)
                    fset.append("%0*X" % (n // 4, x))
                elif kind == 2:    # airborne position with an illegal 12-bit altitude (M bit removed)
                    a12 = ((bad_alt >> 7) << 6) | (bad_alt & 0x3F)
                    me = (rng.choice((9, 11, 18)) << 51) | (rng.fill(3) << 48) | (a12 << 36) | rng.fill(36)
                    fset.append("%028X" % bits.es_frame(17, 5, rng.fill(24), me))
                else:              # DF17 with a type code on which typecode() is -1 / None for DF != 17/18 twins
                    x = bits.downlink(rng.choice((19, 22, 24)), rng.fill(83), 112, 0)
                    fset.append("%028X" % x)
            elif c < 0.45:
                tc = rng.randrange(32)
                me = (tc << 51) | rng.choice((0, (1 << 51) - 1, rng.fill(51), rng.fill(51)))
                if tc == 28 and rng.random() < 0.5:
                    me = (me & ~(0x1FFF << 32)) | (rng.choice((0, 8191)) << 32)
                fset.append("%028X" % bits.es_frame(rng.choice((17, 18)), 5, rng.fill(24), me))
            elif c < 0.75:
                df = rng.choice((20, 21))
                reg = rng.choice(("BDS10", "BDS17", "BDS20", "BDS30", "BDS40", "BDS44", "BDS45", "BDS50", "BDS60", "rand"))
                if reg == "rand":
                    mb, ac = rng.fill(56) & rng.fill(56), rng.choice((None, 0, 8191, rng.fill(13)))
                else:
                    mb, ac = C12.BUILD[reg](rng, df)
                    if rng.random() < 0.5:
                        # altitude / identity field classes that make the C module answer with a sentinel
                        ac = rng.choice((0, 8191, rng.fill(13), rng.choice(ILLEGAL_GILLHAM), rng.choice(ILLEGAL_GILLHAM)))
                fset.append(C12.commb_hex(ctx, mb, df, ac).upper())
            else:
                df = rng.randrange(32)
                n = bits.df_len(df) if rng.random() < 0.8 else rng.choice((56, 112))
                x = bits.downlink(df, rng.fill(n - 29), n, rng.fill(24), rng.randrange(80))
                if rng.random() < 0.3:
                    x = bits.setfield(x, n, 20, 32, rng.choice((0, 8191, 0x0040, 0x0010, rng.fill(13))))
                fset.append("%0*X" % (n // 4, x))
        calls = []
        for idx, hx in enumerate(fset):
            other = fset[(idx + 1) % len(fset)]
            for name, (fn, shape, dom, args) in specs_names:
                a = list(args(hx, other, rng))
                # (the calls travel to the other configuration as JSON: datetime / numpy time stamps become plain numbers here -
                #  the stamp forms themselves are C14's business)
                a = [x if isinstance(x, (str, int, float, bool, type(None))) and not hasattr(x, "dtype") else j_ for j_, x in enumerate(a)]
                calls.append([name, a])
            for extra in ("tell", "pms.df", "pms.icao", "pms.crc", "bds53.is53", "bds53.vr53", "bds53.hdg53"):
                if len(hx) == 28:
                    calls.append([extra, [hx]])
        long_ = [f_ for f_ in fset if len(f_) == 28]
        ok_df = [f_ for f_ in fset if (int(f_[:2], 16) >> 3) in ((17, 20, 21) if len(f_) == 28 else (4, 5, 11))]
        if ok_df:
            calls.append(["rtl.demodulate", [ok_df[:6]]])
        for nm, a in PKG_HELPERS.items():
            if a is not None or long_:
                calls.append(["pkg." + nm, a if a is not None else [long_[0]]])
        yield "m2", {"calls": calls}
    for k in range(ctx.share(64 if quick else 1500)):
        yield "hist", {"hseed": ctx.seed * 7919 + 1000 * ctx.shard + k}
