"""C09 - ADS-B velocity: airborne (TC19) and surface movement (TC5-8)."""
from __future__ import annotations

import math

from ..probe import call
from ..ref import adsb as radsb
from ..ref import bits

LEVEL = "exploration"
BRANCH_TARGETS = ['pyModeS.decoder.bds.bds09:airborne_velocity', 'pyModeS.decoder.bds.bds09:altitude_diff', 'pyModeS.decoder.bds.bds06:surface_velocity', 'pyModeS.decoder.adsb:velocity', 'pyModeS.decoder.adsb:speed_heading']
TECHNIQUE = 'runtime monitoring: DO-260B ME builder as oracle on real velocity decoders, exhaustive field sweeps'
LEVEL_TEXT = 'Exhaustive over subtype x sign x each 10-bit field, vertical rate, difference and the 128x2x128 surface cells; the cross product of the two 10-bit fields is sampled.'
EXHAUSTIVE = True
LEVEL_RULE = (
    "adsb.velocity(source=True/False) / airborne_velocity / surface_velocity / speed_heading / altitude_diff called on "
    "TC19 messages built forward for subtype 1-4 x sign x every 10-bit component/heading/airspeed value (with the other "
    "10-bit field random and pinned to 0 and 1) x vertical-rate and GNSS-baro-difference values incl. all boundaries, all "
    "remaining bits random; and on all 128 x 2 x 128 surface movement/track cells. Oracle: DO-260B formulas (speed within "
    "1 kt for the integer truncation, angles 1e-9). Distinct = distinct message hashes."
)
EXHAUSTIVE_SUBDOMAINS = ["subtype(1-4) x sign x 10-bit field 0..1023 for both fields", "vertical rate 0..511 x sign x source",
                         "GNSS-baro difference 0..127 x sign", "surface movement 0..127 x status x track 0..127"]
ASSUMPTIONS = ["altitude_diff code 127 ('> 3137.5 ft') may decode to None or +-3150: the statement does not settle it",
               "ground speed is accepted within 1 kt of hypot (the implementation truncates to int)"]
REQUIRED = ["st1", "speed_within_3e-4_of_a_whole_knot", "st2", "st3", "st4", "whole_none", "hdg_none", "hdg_north", "spd_none", "vr_none", "diff_none", "surface",
            "mov_none", "trk_none", "routing", "distinct_messages_pushed_through_by_4_threads"]


def expected_tc19(st, f14, a, f25, b, vr_src, vr_sign, vr):
    """returns None or (spd, ang, vs, tag, dirtype, vrsrc); spd may be ('approx', x)"""
    vs = None if vr == 0 else (-1 if vr_sign else 1) * (vr - 1) * 64
    src = "GNSS" if vr_src == 0 else "BARO"
    if st in (1, 2):
        if a == 0 or b == 0:
            return None
        k = 4 if st == 2 else 1
        vwe = (-1 if f14 else 1) * (a - 1) * k
        vsn = (-1 if f25 else 1) * (b - 1) * k
        trk = math.degrees(math.atan2(vwe, vsn)) % 360.0
        return (("isqrt", vwe * vwe + vsn * vsn), trk, vs, "GS", "TRUE_NORTH", src)
    hdg = a * 360.0 / 1024.0 if f14 else None
    spd = None if b == 0 else (b - 1) * (4 if st == 4 else 1)
    return (spd, hdg, vs, "TAS" if f25 else "IAS", "MAGNETIC_NORTH", src)


_MODE = []


def speed_mode():
    """how THIS implementation makes the ground speed a number, probed once per process on a (2, 2) kt vector (sqrt 8 = 2.83):
    'trunc' (2), 'nearest' (3) or 'exact' (2.83...).  The property does not fix the choice, but an implementation makes ONE: a
    result that is the truncated value for one vector and the rounded value for another is off by a knot for one of them."""
    if not _MODE:
        from pyModeS import adsb
        me = radsb.tc19(1, 0, 3, 0, 3, 0, 0, 1, 0, 1, 0, 0, 0, 0)
        r = call(adsb.velocity, "%028X" % bits.es_frame(17, 5, 0x4840D6, me))
        v = r[1][0] if r[0] == "ok" and isinstance(r[1], tuple) else None
        _MODE.append("trunc" if v == 2 and not isinstance(v, float) or v == 2.0 else "nearest" if v == 3 else
                     "exact" if isinstance(v, float) and abs(v - 8 ** 0.5) < 1e-6 else "any")
    return _MODE[0]


def compare(obs, exp):
    if exp is None or obs is None:
        return obs is None and exp is None
    if not isinstance(obs, tuple) or len(obs) != len(exp):
        return False
    for o, e in zip(obs, exp):
        if isinstance(e, tuple) and e[0] == "isqrt":
            # speed = sqrt(e[1]) kt; the property does not fix how it is made an integer: the truncated value, the nearest
            # integer and the unrounded value are all accepted - nothing else (in particular not "one knot short")
            if o is None or isinstance(o, bool):
                return False
            s2 = e[1]
            t = math.isqrt(s2)
            nearest = t + 1 if (2 * t + 1) ** 2 <= 4 * s2 else t
            if not (o == t or o == nearest or abs(o - math.sqrt(s2)) <= 1e-6):
                return False
            mode = speed_mode()
            if (mode == "trunc" and o != t) or (mode == "nearest" and o != nearest) or (mode == "exact" and abs(o - math.sqrt(s2)) > 1e-6):
                return False      # not the convention this implementation uses everywhere else
        elif isinstance(e, float):
            if o is None or isinstance(o, bool):
                return False
            d = abs(o - e)
            if not (0.0 <= o <= 360.0) or min(d, 360.0 - d) > 1e-9:
                return False
        elif e is None:
            if o is not None:
                return False
        else:
            if o != e or isinstance(o, bool):
                return False
    return True


def m_tc19(ctx, case):
    from pyModeS import adsb
    rng = ctx.rng
    for sub in case["msgs"]:
        st, f14, a, f25, b, vr_src, vr_sign, vr, ds, dv = sub
        me = radsb.tc19(st, f14, a, f25, b, vr_src, vr_sign, vr, ds, dv, rng.randrange(2), rng.randrange(2), rng.randrange(8),
                        rng.randrange(4))
        hx = bits.anypi(rng, "%028X" % bits.es_frame(rng.choice((17, 17, 18)), rng.randrange(8), rng.fill(24), me))
        if rng.random() < 0.2:
            hx = hx.lower()
        exp6 = expected_tc19(st, f14, a, f25, b, vr_src, vr_sign, vr)
        exp4 = None if exp6 is None else exp6[:4]
        r6 = call(adsb.velocity, hx, True)
        r4 = call(adsb.velocity, hx)
        d6 = call(adsb.airborne_velocity, hx, True)
        sh = call(adsb.speed_heading, hx)
        ctx.ev(4)
        ctx.hit("st%d" % st)
        if r6 != d6:
            ctx.violation("velocity-routing-differs", frame=hx, velocity=r6, direct=d6)
        ctx.hit("routing")
        bad = None
        if r6[0] != "ok" or r4[0] != "ok" or sh[0] != "ok":
            bad = "velocity-raises"
        elif not compare(r6[1], exp6) or not compare(r4[1], exp4):
            if st in (3, 4) and r6[1] is None and (a == 0 or b == 0):
                bad = "early-none-applied-to-airspeed-subtypes"
            else:
                bad = "velocity-wrong"
        elif not compare(sh[1], None if exp4 is None else exp4[:2]):
            bad = "speed_heading-wrong"
        if bad:
            ctx.violation(bad, frame=hx, subtype=st, fields=sub, expected=repr(exp6), observed=repr((r6[1:], sh[1:]))[:300])
        if exp6 is None:
            ctx.hit("whole_none")
        else:
            if st in (3, 4):
                if exp6[1] is None:
                    ctx.hit("hdg_none")
                elif a == 0:
                    ctx.hit("hdg_north")
                if exp6[0] is None:
                    ctx.hit("spd_none")
            if exp6[2] is None:
                ctx.hit("vr_none")
        # altitude difference
        r = call(adsb.altitude_diff, hx)
        ctx.ev()
        if dv == 0:
            okd = r == ("ok", None)
            ctx.hit("diff_none")
        elif dv == 127:
            okd = r[0] == "ok" and (r[1] is None or r[1] == (-1 if ds else 1) * 126 * 25)
        else:
            okd = r[0] == "ok" and r[1] == (-1 if ds else 1) * (dv - 1) * 25 and not isinstance(r[1], bool)
        if not okd:
            ctx.violation("altitude_diff-wrong", frame=hx, sign=ds, value=dv, observed=r[1:])
        ctx.nontrivial(("v", hx))
    if ctx.rng.random() < 0.01:
        ctx.sample({"frame": hx, "fields(st,f14,v1,f25,v2,vrsrc,vrsign,vr,dsign,diff)": sub, "expected": repr(exp6)})


def m_surface(ctx, case):
    from pyModeS import adsb
    rng = ctx.rng
    mov = case["mov"]
    for status in (0, 1):
        for trk in range(128):
            tc = rng.choice((5, 6, 7, 8))
            me = radsb.tc_surface(tc, mov, status, trk, rng.randrange(2), rng.randrange(2), rng.fill(17), rng.fill(17))
            hx = bits.anypi(rng, "%028X" % bits.es_frame(rng.choice((17, 18)), rng.randrange(8), rng.fill(24), me))
            if trk % 9 == 0:
                hx = hx.lower()
            es = radsb.movement_kt(mov)
            et = trk * 360.0 / 128.0 if status else None
            for src in (False, True):
                exp = (es, et, 0, "GS", "TRUE_NORTH", None) if src else (es, et, 0, "GS")
                r = call(adsb.velocity, hx, src)
                d = call(adsb.surface_velocity, hx, src)
                ctx.ev(2)
                if r != d:
                    ctx.violation("velocity-routing-differs", frame=hx, velocity=r, direct=d)
                if r[0] != "ok" or not isinstance(r[1], tuple) or len(r[1]) != len(exp) or any(
                        (o is not None and e is None) or (o is None and e is not None) or
                        (e is not None and o is not None and (o != e if isinstance(e, str) else abs(o - e) > 1e-9))
                        for o, e in zip(r[1], exp)):
                    ctx.violation("surface-velocity-wrong", frame=hx, mov=mov, status=status, trk=trk, expected=repr(exp), observed=repr(r[1:]))
            sh = call(adsb.speed_heading, hx)
            ctx.ev()
            if sh[0] != "ok" or sh[1] is None or tuple(sh[1]) != (r[1][0], r[1][1]) if r[0] == "ok" else True:
                ctx.violation("speed_heading-wrong", frame=hx, observed=sh[1:], velocity=r[1:])
            ctx.hit("surface")
            if es is None:
                ctx.hit("mov_none")
            if et is None:
                ctx.hit("trk_none")
            ctx.nontrivial(("s", hx))


def m_volthreads(ctx, case):
    """more distinct velocity messages than an 18-bit bounded memo holds (2**18 = 262144), from 4 threads at once, every seventh
    request repeating what the neighbour thread is asking for at that moment (see pmv/volume.py): a ring of keys that holds one
    key twice fails only when the ring wraps over it - hundreds of thousands of messages later, on an unrelated message"""
    from .. import volume
    from pyModeS import adsb

    def mk(r):
        me = radsb.tc19(1, r.randrange(2), r.randrange(1, 1024), r.randrange(2), r.randrange(1, 1024), r.randrange(2), r.randrange(2),
                        r.randrange(512), r.randrange(2), r.randrange(128))
        return "%028X" % bits.es_frame(17, 5, r.getrandbits(24), me)

    def oracle(name, msg):
        me = (int(msg, 16) >> 24) & ((1 << 56) - 1)
        vr = radsb.get(me, 38, 46)
        return None if vr == 0 else (-1 if radsb.get(me, 37, 37) else 1) * (vr - 1) * 64

    def vrate(m):
        v = adsb.velocity(m)
        return v[2] if isinstance(v, tuple) and len(v) >= 4 else ("unexpected result", v)
    volume.run(ctx, [("velocity_vertical_rate", vrate)], mk, oracle, total=case["total"])


NO_OBSERVE = ("volthreads",)
MONITORS = {"volthreads": m_volthreads, "tc19": m_tc19, "surface": m_surface}

VR_B = [0, 1, 2, 3, 255, 256, 257, 510, 511]
DIFF_B = [0, 1, 2, 63, 64, 126, 127]


def cases(ctx):
    rng = ctx.rng
    quick = ctx.tier == "quick"
    i = 0
    if ctx.mine(5):
        yield "volthreads", {"total": 300000 if quick else 640000}
    for st in (1, 2, 3, 4):
        for which in (0, 1):          # which 10-bit field is swept
            for other in ("rand", 0, 1, 1023):
                for lo in range(0, 1024, 128):
                    if ctx.mine(i):
                        msgs = []
                        for v in range(lo, lo + 128):
                            for sgn in (0, 1):
                                o = rng.randrange(1024) if other == "rand" else other
                                a, b = (v, o) if which == 0 else (o, v)
                                f14, f25 = (sgn, rng.randrange(2)) if which == 0 else (rng.randrange(2), sgn)
                                msgs.append([st, f14, a, f25, b, rng.randrange(2), rng.randrange(2),
                                             rng.choice(VR_B + [rng.randrange(512)]), rng.randrange(2),
                                             rng.choice(DIFF_B + [rng.randrange(128)])])
                        yield "tc19", {"msgs": msgs}
                    i += 1
    # both velocity fields together on a full grid of small magnitudes (cardinal and diagonal headings, exact integer
    # speeds, truncation vs rounding show on PAIRS of values, not on one field at a time)
    top = 41 if quick else 161
    for st in (1, 2):
        for a0 in range(0, top, 8):
            if ctx.mine(i):
                msgs = []
                for a in range(a0, min(a0 + 8, top)):
                    for b in range(top):
                        for s1 in (0, 1):
                            for s2 in (0, 1):
                                msgs.append([st, s1, a, s2, b, rng.randrange(2), rng.randrange(2), rng.randrange(512),
                                             rng.randrange(2), rng.randrange(128)])
                yield "tc19", {"msgs": msgs}
            i += 1
    # boundary values of THREE fields at once: both velocity components and the vertical rate at their "not available" (0),
    # zero (1), first non-zero (2) and maximum codes, every sign, every subtype
    if ctx.mine(i):
        msgs = []
        for st in (1, 2, 3, 4):
            for a in (0, 1, 2, 1023):
                for b in (0, 1, 2, 1023):
                    for vr in (0, 1, 2, 511):
                        for sg in range(8):
                            msgs.append([st, sg & 1, a, (sg >> 1) & 1, b, rng.randrange(2), (sg >> 2) & 1, vr, rng.randrange(2), rng.choice((0, 1, 2, 127))])
        yield "tc19", {"msgs": msgs}
    i += 1
    # every velocity vector whose speed is an exact integer (Pythagorean pairs): int() of a result that is off by one ulp
    # shows there and nowhere else; both orders, all signs, subsonic and supersonic
    import math as _m
    pyth = [(a, b) for a in range(1, 1023) for b in range(a, 1023) if _m.isqrt(a * a + b * b) ** 2 == a * a + b * b]
    for j in range(0, len(pyth), 64):
        if ctx.mine(i):
            msgs = []
            for (a, b) in pyth[j:j + 64]:
                for (u, v) in ((a, b), (b, a)):
                    for st in (1, 2):
                        s1, s2 = rng.randrange(2), rng.randrange(2)
                        msgs.append([st, s1, u + 1, s2, v + 1, rng.randrange(2), rng.randrange(2), rng.randrange(512),
                                     rng.randrange(2), rng.randrange(128)])
            yield "tc19", {"msgs": msgs}
            ctx.hit("exact_integer_speed_vectors")
        i += 1
    # every vector whose speed lies within 3e-4 kt of a whole number without being one (k*k -+ 1 and the like): a tolerance
    # added before int() / round() ("guard against float noise") flips exactly these; subsonic and supersonic scale
    near = []
    for st, kk in ((1, 1), (2, 4)):
        for a in range(0, 1023):
            for b in range(a, 1023):
                s2_ = kk * kk * (a * a + b * b)
                t_ = _m.isqrt(s2_)
                if t_ * t_ != s2_:
                    fr = s2_ ** 0.5 - t_
                    if fr < 3e-4 or fr > 1 - 3e-4:
                        near.append((st, a, b))
    for j in range(0, len(near), 64):
        if ctx.mine(i):
            msgs = []
            for (st, a, b) in near[j:j + 64]:
                for (u, v) in ((a, b), (b, a)):
                    msgs.append([st, rng.randrange(2), u + 1, rng.randrange(2), v + 1, rng.randrange(2), rng.randrange(2), rng.randrange(512),
                                 rng.randrange(2), rng.randrange(128)])
            yield "tc19", {"msgs": msgs}
            ctx.hit("speed_within_3e-4_of_a_whole_knot", len(msgs))
        i += 1
    if not quick:
        # thorough tier: the full cross product of both magnitudes (subtype 1 and 2 alternate)
        for a0 in range(0, 1024, 4):
            if ctx.mine(i):
                msgs = []
                for a in range(a0, a0 + 4):
                    for b in range(1024):
                        msgs.append([1 + ((a + b) & 1), (a >> 1) & 1, a, b & 1, b, 0, (a ^ b) & 1, (a * 7 + b) % 512, 0, b % 128])
                yield "tc19", {"msgs": msgs}
            i += 1
    # vertical rate and difference exhaustively
    for st in (1, 2, 3, 4):
        for lo in range(0, 512, 64):
            if ctx.mine(i):
                msgs = []
                for vr in range(lo, lo + 64):
                    for sgn in (0, 1):
                        for src in (0, 1):
                            msgs.append([st, rng.randrange(2), rng.randrange(1, 1024), rng.randrange(2), rng.randrange(1, 1024),
                                         src, sgn, vr, (vr >> 1) & 1, vr % 128])
                            msgs.append([st, rng.randrange(2), rng.randrange(1, 1024), rng.randrange(2), rng.randrange(1, 1024),
                                         src, sgn, vr, vr & 1, (vr // 4) % 128])
                yield "tc19", {"msgs": msgs}
            i += 1
    for k in range(ctx.share(1000 if quick else 30000)):
        msgs = [[rng.randrange(1, 5), rng.randrange(2), rng.randrange(1024), rng.randrange(2), rng.randrange(1024),
                 rng.randrange(2), rng.randrange(2), rng.randrange(512), rng.randrange(2), rng.randrange(128)] for _ in range(200)]
        yield "tc19", {"msgs": msgs}
    for mov in range(128):
        for rep in range(2 if quick else 4):
            if ctx.mine(i):
                yield "surface", {"mov": mov}
            i += 1
