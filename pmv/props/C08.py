"""C08 - identity code and surveillance / all-call reply fields."""
from __future__ import annotations

from ..probe import call
from ..ref import alt as ralt
from ..ref import bits

LEVEL = "exploration"
BRANCH_TARGETS = ['pyModeS.py_common:squawk', 'pyModeS.py_common:idcode']
TECHNIQUE = 'runtime monitoring: exhaustive identity patterns and field products against forward builders, guard matrix over DF 0..31'
LEVEL_TEXT = 'Finite field domains enumerated completely on every run; remaining bits sampled.'
EXHAUSTIVE = True
LEVEL_RULE = (
    "All 8192 identity patterns (A,B,C,D digits x X bit, forward interleaver) through common.squawk/idcode, surv.identity "
    "(DF5), DF21 and adsb.emergency_squawk (TC28); the full FS(8)xDR(32)xIIS(16)xIDS(4) product through surv.fs/dr/um on "
    "DF4 and DF5; CA(8) and interrogator codes 0..127 through allcall on DF11 built with PI = parity XOR code; every "
    "reply-specific decoder on every DF 0..31 (guard matrix). Random remaining bits. Distinct = distinct frame hashes."
)
EXHAUSTIVE_SUBDOMAINS = ["8192 identity patterns x {DF5, DF21, TC28}", "FS x DR x IIS x IDS product x {DF4, DF5}", "interrogator overlays 0..127 plus every single high bit x {0,5,22,79} and random 24-bit overlays",
                         "CA 0..7, interrogator code 0..127", "guard matrix: 8 decoders x DF 0..31"]
ASSUMPTIONS = ["description strings returned beside FS/DR/IDS/CA are not judged, only the numeric fields"]
REQUIRED = ["seventy_thousand_refusals_at_one_decoder", "id_df5", "id_df21", "id_tc28", "id_tc28_sparse", "field_overwritten_parity_kept", "x0", "x1", "surv_df4", "surv_df5", "ic_ii", "ic_si", "ic_corrupt", "ca", "guards"]


def m_identity(ctx, case):
    import pyModeS as pms
    from pyModeS import adsb
    from pyModeS.decoder import surv
    rng = ctx.rng
    a = case["a"]
    for b in range(8):
        for c in range(8):
            for d in range(8):
                for x in (0, 1):
                    code = ralt.identity_code13(a, b, c, d, x)
                    exp = "%d%d%d%d" % (a, b, c, d)
                    ctx.hit("x%d" % x)
                    r = call(pms.common.squawk, format(code, "013b"))
                    ctx.ev()
                    if r != ("ok", exp):
                        ctx.violation("squawk-wrong-digits", code=format(code, "013b"), expected=exp, observed=r[1:], api="common.squawk")
                    # DF5 / DF21 carriers, ID field bits 20..32
                    for df, n in ((5, 56), (21, 112)):
                        data = (df << (n - 29)) | rng.fill(n - 29)
                        f = bits.setfield(bits.with_pi(data, n, rng.fill(24)), n, 20, 32, code)
                        hx = "%0*X" % (n // 4, f)
                        if rng.random() < 0.3:
                            hx = hx.lower()
                        apis = [("common.idcode", pms.common.idcode)]
                        if df == 5:
                            apis.append(("surv.identity", surv.identity))
                        for nm, fn in apis:
                            r = call(fn, hx)
                            ctx.ev()
                            if r != ("ok", exp):
                                ctx.violation("squawk-wrong-digits", frame=hx, expected=exp, observed=r[1:], api=nm)
                        ctx.hit("id_df%d" % df)
                        ctx.nontrivial(("id", hx))
                    # TC28 emergency squawk: ME bits 12..24
                    me = (28 << 51) | (rng.choice((0, 1, 1, 3)) << 48) | (rng.fill(3) << 45) | (code << 32) | rng.fill(32)
                    hx = bits.anypi(rng, "%028X" % bits.es_frame(rng.choice((17, 18)), rng.randrange(8), rng.fill(24), me))
                    r = call(adsb.emergency_squawk, hx)
                    ctx.ev()
                    if r != ("ok", exp):
                        ctx.violation("squawk-wrong-digits", frame=hx, expected=exp, observed=r[1:], api="adsb.emergency_squawk")
                    ctx.hit("id_tc28")
                    ctx.nontrivial(("id", hx))
    # sparse / saturated TC28 frames: every subtype x emergency state against boundary codes with an all-zero or all-one rest
    # (random rests practically never leave the remaining 32 bits empty)
    for (b, c, d) in ((0, 0, 0), (7, 7, 7), (a, a, a), (5, 0, 0), (6, 0, 0), (7, 0, 0)):
        for x in (0, 1):
            code = ralt.identity_code13(a, b, c, d, x)
            exp = "%d%d%d%d" % (a, b, c, d)
            for st in range(8):
                for es in range(8):
                    for tail in (0, (1 << 32) - 1):
                        me = (28 << 51) | (st << 48) | (es << 45) | (code << 32) | tail
                        hx = "%028X" % bits.es_frame(17 + (es & 1), 5, 0x4840D6, me)
                        r = call(adsb.emergency_squawk, hx)
                        ctx.ev()
                        if r != ("ok", exp):
                            ctx.violation("squawk-wrong-digits", frame=hx, expected=exp, observed=r[1:], api="adsb.emergency_squawk")
                        ctx.nontrivial(("id", hx))
    ctx.hit("id_tc28_sparse")
    ctx.sample({"A": a, "example_code": format(ralt.identity_code13(a, 1, 2, 3, 0), "013b"), "expected": "%d123" % a})


def m_surv(ctx, case):
    from pyModeS.decoder import surv
    rng = ctx.rng
    fs_, dr_ = case["fs"], case["dr"]
    for iis in range(16):
        for ids in range(4):
            for df in (4, 5):
                hdr = (fs_ << 24) | (dr_ << 19) | (iis << 15) | (ids << 13) | rng.fill(13)
                f = bits.with_pi((df << 27) | hdr, 56, rng.fill(24))
                hx = "%014X" % f
                if rng.random() < 0.3:
                    hx = hx.lower()
                for nm, fn, exp in (("fs", surv.fs, (fs_,)), ("dr", surv.dr, (dr_,)), ("um", surv.um, (iis, ids))):
                    r = call(fn, hx)
                    ctx.ev()
                    ok = r[0] == "ok" and isinstance(r[1], tuple) and tuple(r[1][:len(exp)]) == exp and \
                        all(t is None or isinstance(t, str) for t in r[1][len(exp):]) and len(r[1]) == len(exp) + 1
                    if not ok:
                        ctx.violation("surv-field-wrong", frame=hx, field=nm, expected=exp, observed=r[1:])
                ctx.hit("surv_df%d" % df)
                ctx.nontrivial(("sv", hx))
                # the same three fields through the package-level helpers (pyModeS.fs / dr / um of the common module, documented
                # for DF 4, 5, 20 and 21): on this reply and on the LONG reply with the same control fields (DF20 / 21: a 56-bit
                # MB field lies between them and the parity)
                import pyModeS
                com = pyModeS.common
                if all(callable(getattr(com, n_, None)) for n_ in ("fs", "dr", "um")):
                    fl = bits.with_pi((((df + 16) << 27) | hdr) << 56 | rng.fill(56), 112, rng.fill(24))
                    for hx2 in (hx, ("%028X" % fl) if rng.random() < 0.7 else ("%028x" % fl)):
                        for nm, fn, exp in (("fs", com.fs, (fs_,)), ("dr", com.dr, (dr_,)), ("um", com.um, (iis, ids))):
                            r = call(fn, hx2)
                            ctx.ev()
                            ok = r[0] == "ok" and isinstance(r[1], tuple) and tuple(r[1][:len(exp)]) == exp and \
                                all(t is None or isinstance(t, str) for t in r[1][len(exp):]) and len(r[1]) == len(exp) + 1
                            if not ok:
                                ctx.violation("common-helper-surv-field-wrong", frame=hx2, field=nm, expected=exp, observed=r[1:])
                    ctx.hit("common_fs_dr_um_on_df%d_and_df%d" % (df, df + 16))


def m_allcall(ctx, case):
    from pyModeS.decoder import allcall
    rng = ctx.rng
    code = case["code"]
    for ca in range(8):
        for rep in range(case["reps"]):
            addr = rng.fill(24)
            f = bits.with_pi((11 << 27) | (ca << 24) | addr, 56, code)
            hx = "%014X" % f
            if rep % 3 == 1:
                hx = hx.lower()
            exp = "II%d" % code if code < 16 else "SI%d" % (code - 16) if code <= 79 else "corrupt IC"
            r = call(allcall.interrogator, hx)
            ctx.ev()
            if r != ("ok", exp):
                ctx.violation("interrogator-code-wrong", frame=hx, code=code, expected=exp, observed=r[1:])
            ctx.hit("ic_ii" if code < 16 else "ic_si" if code <= 79 else "ic_corrupt")
            r = call(allcall.capability, hx)
            ctx.ev()
            if not (r[0] == "ok" and isinstance(r[1], tuple) and len(r[1]) == 2 and r[1][0] == ca and (r[1][1] is None or isinstance(r[1][1], str))):
                ctx.violation("capability-wrong", frame=hx, expected=ca, observed=r[1:])
            ctx.hit("ca")
            ctx.nontrivial(("ac", hx))
            # the same reply with ONE field overwritten afterwards (the parity still belongs to the old content: what a bit
            # error in that field looks like) - the decoders report the bits that are in the frame, they do not "repair" it
            for ca2 in range(8):
                if ca2 == ca:
                    continue
                f2 = bits.setfield(f, 56, 6, 8, ca2)
                h2 = "%014X" % f2
                r = call(allcall.capability, h2)
                ctx.ev()
                if not (r[0] == "ok" and isinstance(r[1], tuple) and r[1][0] == ca2):
                    ctx.violation("capability-wrong", frame=h2, expected=ca2, observed=r[1:], note="CA overwritten, parity of the old content")
            a2 = addr ^ (1 << rng.randrange(24))
            h3 = "%014X" % bits.setfield(f, 56, 9, 32, a2)
            r = call(allcall.icao, h3)
            ctx.ev()
            if r != ("ok", "%06X" % a2):
                ctx.violation("allcall-icao-wrong", frame=h3, expected="%06X" % a2, observed=r[1:], note="AA bit flipped, parity of the old content")
            ctx.hit("field_overwritten_parity_kept")


def m_guards(ctx, case):
    import pyModeS as pms
    from pyModeS import adsb
    from pyModeS.decoder import allcall, surv
    rng = ctx.rng
    df = case["df"]
    table = [("surv.fs", surv.fs, (4, 5)), ("surv.dr", surv.dr, (4, 5)), ("surv.um", surv.um, (4, 5)),
             ("surv.altitude", surv.altitude, (4,)), ("surv.identity", surv.identity, (5,)),
             ("allcall.icao", allcall.icao, (11,)), ("allcall.interrogator", allcall.interrogator, (11,)),
             ("allcall.capability", allcall.capability, (11,)), ("common.idcode", pms.common.idcode, (5, 21)),
             ("adsb.emergency_squawk", adsb.emergency_squawk, ())]
    for n in (56, 112):
        for rep in range(case["reps"]):
            body = rng.fill(n - 29)
            if n == 112 and df in (17, 18) and rep % 2 == 0:
                body = bits.setfield(body, n - 29, 28, 32, 28)  # TC28 inside DF17/18 (ME starts at frame bit 33 = body bit 28)
            f = bits.with_pi((df << (n - 29)) | body, n, rng.fill(24))
            hx = "%0*X" % (n // 4, f)
            if rep % 5 == 4:
                hx = hx.lower()
            tc28 = n == 112 and df in (17, 18) and bits.field(f, 112, 33, 37) == 28
            for nm, fn, dfs in table:
                r = call(fn, hx)
                ctx.ev()
                allowed = (df in dfs) or (nm == "adsb.emergency_squawk" and tc28)
                if nm == "adsb.emergency_squawk" and n == 56:
                    continue  # a 56-bit frame has no ME field; the statement says nothing about it (C14 covers totality)
                if allowed:
                    if r[0] != "ok":
                        ctx.violation("decoder-rejects-own-format", frame=hx, api=nm, df=df, observed=r)
                elif not (r[0] == "exc" and r[1] == "RuntimeError"):
                    ctx.violation("guard-missing", frame=hx, api=nm, df=df, observed=r)
            ctx.nontrivial(("g", hx))
    ctx.hit("guards")


def m_volume(ctx, case):
    """one long-running process: after n OTHER identity replies (70000 in the quick tier, 1.1 million - more than a 20-bit slot
    count - in the thorough tier) the first ones still give their own squawk; calls are made directly (no recording)"""
    import random as _r
    from pyModeS import common, surv
    rng = _r.Random(case["vseed"])
    n = case["n"]

    def mkf(k):
        a, b, c, d = rng.randrange(8), rng.randrange(8), rng.randrange(8), rng.randrange(8)
        df = 5 if k & 1 else 21
        code = ralt.identity_code13(a, b, c, d, rng.randrange(2))
        nb = 56 if df == 5 else 112
        x = (df << (nb - 5)) | (rng.getrandbits(14) << (nb - 19)) | (code << (nb - 32)) | rng.getrandbits(nb - 32)
        return "%0*X" % (nb // 4, x), "%d%d%d%d" % (a, b, c, d)
    first = []
    for k in range(n):
        hx, exp = mkf(k)
        try:
            got = common.idcode(hx)
        except Exception as e:  # noqa
            got = "raised " + type(e).__name__
        if got != exp:
            ctx.violation("squawk-wrong-digits", frame=hx, expected=exp, observed=got, api="common.idcode", after_calls=k)
            return
        if k < 2000:
            first.append((hx, exp))
    ctx.ev(n)
    for hx, exp in first:
        r = call(common.idcode, hx)
        r2 = call(surv.identity, hx) if len(hx) == 14 else r      # surv.identity is the DF5 reader
        ctx.ev(2)
        if r != ("ok", exp) or r2 != ("ok", exp):
            ctx.violation("identity-decoded-differently-after-%dk-others" % (n // 1000), frame=hx, expected=exp, idcode=r[1:], identity=r2[1:])
            return
    # ... and a long history of REFUSED frames at one decoder (a diagnostic tally in a 16-bit slot): refusal number 70000 is still
    # a RuntimeError
    from pyModeS import allcall
    wrong = "%028X" % ((17 << 107) | rng.getrandbits(107))
    short_wrong = "%014X" % ((4 << 51) | rng.getrandbits(51))
    for fn_, fr_ in ((allcall.interrogator, wrong), (allcall.capability, short_wrong), (allcall.icao, wrong), (surv.identity, wrong), (common.idcode, wrong)):
        last = None
        for k in range(70000):
            try:
                fn_(fr_)
                last = "returned a value"
            except RuntimeError:
                last = None
            except Exception as e:  # noqa
                last = "raised " + type(e).__name__
            if last:
                ctx.violation("guard-missing" if last.startswith("returned") else "guard-raises-%s-after-many-refusals" % last.split()[-1],
                              frame=fr_, api=getattr(fn_, "__name__", str(fn_)), observed=last, refusal_number=k + 1)
                return
        ctx.ev(70000)
    ctx.hit("seventy_thousand_refusals_at_one_decoder")
    ctx.hit("first_identity_replies_again_after_%s_others" % ("a_million" if n > 1000000 else "70k"))
    ctx.nontrivial(("vol", case["vseed"]))


NO_OBSERVE = ("volume",)
MONITORS = {"volume": m_volume, "identity": m_identity, "surv": m_surv, "allcall": m_allcall, "guards": m_guards}


def cases(ctx):
    if ctx.mine(11):
        yield "volume", {"n": 70000 if ctx.tier == "quick" else 1100000, "vseed": ctx.seed * 131 + 7}
    yield from _cases(ctx)


def _cases(ctx):
    quick = ctx.tier == "quick"
    i = 0
    for a in range(8):
        for rep in range(2 if quick else 4):
            if ctx.mine(i):
                yield "identity", {"a": a}
            i += 1
    for fs_ in range(8):
        for dr_ in range(32):
            for rep in range(2 if quick else 6):
                if ctx.mine(i):
                    yield "surv", {"fs": fs_, "dr": dr_}
                i += 1
    # the overlay is 24 bits wide: everything above 79 is a corrupt code, also when its low 7 bits look legal
    codes = list(range(128)) + [(1 << b) | k for b in range(7, 24) for k in (0, 5, 22, 79)] + [0xFFFFFF, 0xFFFF80, 0x123400]
    import random as _r
    crng = _r.Random(808)
    codes += [crng.getrandbits(24) for _ in range(64 if quick else 1000)]
    for code in codes:
        if ctx.mine(i):
            yield "allcall", {"code": code, "reps": 16 if quick else 60}
        i += 1
    for df in range(32):
        for rep in range(4 if quick else 16):
            if ctx.mine(i):
                yield "guards", {"df": df, "reps": 24 if quick else 60}
            i += 1
