"""C17 - live aircraft table: robust, correct positions, bounded staleness."""
from __future__ import annotations

import contextlib
import io
import math

from ..probe import call
from ..ref import adsb as radsb
from ..ref import bits, cpr
from .. import cprgen
from . import C12
from .C06 import WINDOW_HI

LEVEL = "exploration"
BRANCH_TARGETS = ['pyModeS.streamer.decode:Decode.process_raw', 'pyModeS.streamer.decode:Decode.run']
TECHNIQUE = 'runtime monitoring: simulated-world oracle (true trajectories) + state invariants checked after every process_raw call; differential lower-case replay; exactly-once monitor on Decode.run()'
LEVEL_TEXT = 'Exploration over thousands of short generated histories with directed scenarios (outages, evictions, NL/equator/antimeridian crossings, surface<->airborne).'
LEVEL_RULE = (
    "Decode.process_raw driven with generated histories (1-6 simulated aircraft flying great-circle legs and turns at up to "
    "600 kt, airborne or on the surface, emitting reference-encoded CPR position frames plus velocity/identification/status/"
    "Comm-B messages; noise addresses sending uniformly random DF17/18/20/21 payloads; gaps <10 s, 10-180 s, >180 s, >61 s; "
    "NL-transition, equator, Greenwich and antimeridian crossings; surface<->airborne transitions; receiver given/absent); "
    "monitors after every call: no exception, listed if heard <=59 s ago / absent if silent >61 s, no record for Comm-B-only "
    "addresses, stored lat/lon within 0.001 deg of arc of the true position of the updating message, and the same table for "
    "the lower-case rendering of the history; Decode.run() with fake pipes processes every batch exactly once. "
    "Distinct = distinct history hashes."
)
EXHAUSTIVE_SUBDOMAINS = []
ASSUMPTIONS = ["positions are judged only for the simulated (cleanly encoded) aircraft; noise addresses are judged for robustness, "
               "listing and the Comm-B rule only", "between 59 s and 61 s of silence neither presence nor absence is judged",
               "longitude compared modulo 360; error measured as great-circle angle"]
REQUIRED = ["calls", "run_loop_published_an_empty_table_after_everybody_timed_out", "receiver_location_given_as_strings", "landed_at_the_receivers_airfield_during_a_position_outage", "same_squitter_string_repeated", "aircraft_exactly_over_pole_equator_antimeridian", "idle_call_with_no_messages", "batch_processed_at_tnow_exactly_zero", "transitions", "branch_ref", "branch_global", "branch_none", "evicted", "reappeared", "commb_attached", "commb_unknown_ignored",
            "surface_update", "airborne_update", "case_compare", "run_loop", "gap_lt10", "gap_10_180", "gap_gt180", "cross_antimeridian",
            "cross_equator", "cross_nl", "second_tracker_alive"]


def get_decode():
    with contextlib.redirect_stdout(io.StringIO()):
        from pyModeS.streamer.decode import Decode
    return Decode


class Ac:
    def __init__(self, rng, scen):
        self.addr = rng.getrandbits(24) | (0xA00000 if rng.random() < 0.7 else 0)
        self.surface = scen.get("surface", False)
        self.lat, self.lon = scen["start"]
        self.trk = scen.get("trk", rng.uniform(0, 360))
        self.gs = scen.get("gs", rng.uniform(100, 600) if not self.surface else rng.uniform(0, 40))
        self.turn = scen.get("turn", rng.choice((0, 0, 0.5, -0.5, 3, -3)))  # deg/s
        self.t = 0.0
        self.par = rng.randrange(2)
        self.df = rng.choice((17, 17, 17, 18))
        self.tainted = False
        self.cs = "".join(rng.choice("ABCDEFGHIJKLMNOPQRSTUVWXYZ0123456789 ") for _ in range(8))

    def advance(self, t):
        dt = t - self.t
        if dt > 0:
            step = 5.0 if dt <= 600 else dt / 100.0
            while dt > 1e-12:
                h = min(step, dt)
                d = self.gs * h / 3600.0
                lat0 = self.lat
                self.lat, self.lon = cpr.destination(self.lat, self.lon, self.trk, d)
                self.lat = max(-90.0, min(90.0, self.lat))
                self.trk = (self.trk + self.turn * h) % 360.0
                dt -= h
        self.t = t


def pos_msg(rng, ac, parity=None):
    i = ac.par if parity is None else parity
    ac.par ^= 1 if rng.random() < 0.85 else 0
    yz, xz, rlat, _, _ = cpr.encode(ac.lat, ac.lon, i, ac.surface)
    if 87.0 < abs(rlat) <= WINDOW_HI or 87.0 < abs(ac.lat) <= WINDOW_HI:
        ac.tainted = True
    if ac.surface:
        me = cpr.me_surface(rng.choice((5, 6, 7, 8)), rng.randrange(128), rng.randrange(2), rng.randrange(128), 0, i, yz, xz)
    else:
        me = cpr.me_airborne(rng.choice((9, 11, 13, 18)), rng.randrange(4), 0, ralt_q(rng) if rng.random() > 0.04 else 0, 0, i, yz, xz)
    return "%028X" % bits.es_frame(ac.df, 5, ac.addr, me)


def ralt_q(rng):
    n = rng.randrange(40, 1800)
    return ((n >> 4) << 5) | (1 << 4) | (n & 15)


def other_adsb(rng, ac):
    c = rng.random()
    if c < 0.4:
        me = radsb.tc19(rng.choice((1, 1, 1, 3)), rng.randrange(2), rng.randrange(1024), rng.randrange(2), rng.randrange(1024),
                        rng.randrange(2), rng.randrange(2), rng.randrange(512), rng.randrange(2), rng.randrange(128))
    elif c < 0.55:
        v = 0
        for ch in ac.cs:
            v = (v << 6) | {" ": 32}.get(ch, ord(ch) - 64 if ch.isalpha() else ord(ch))
        me = (4 << 51) | (rng.randrange(8) << 48) | v
    elif c < 0.7:
        me = radsb.tc31(rng.randrange(2), rng.getrandbits(16), rng.getrandbits(16), rng.choice((0, 1, 2, 2)), rng.randrange(2),
                        rng.randrange(16), rng.randrange(4), rng.randrange(4), rng.randrange(2), rng.randrange(2), rng.randrange(2), 0)
    elif c < 0.8:
        me = (29 << 51) | (rng.choice((0, 1, 1, 2)) << 49) | rng.getrandbits(49)
    elif c < 0.88:
        me = radsb.tc28(rng.choice((0, 1, 2)), rng.randrange(8), rng.getrandbits(13), rng.getrandbits(32))
    else:
        me = (rng.choice((0, 23, 24, 25, 26, 27, 30, 19, 20, 21, 22)) << 51) | rng.getrandbits(51)
    return "%028X" % bits.es_frame(ac.df, rng.randrange(8), ac.addr, me)


def commb_msg(rng, addr):
    df = rng.choice((20, 21))
    c = rng.random()
    if c < 0.35:
        mb, ac = C12.b50(rng), None
    elif c < 0.7:
        mb, ac = C12.b60(rng, df)
    elif c < 0.8:
        mb, ac = C12.b44(rng), None
    elif c < 0.9:
        mb, ac = rng.getrandbits(56), None
    else:
        mb, ac = rng.choice((0, 0, 1, 1 << 55)), None      # an empty (all-zero MB) or almost empty reply is still "heard"
    hdr = rng.getrandbits(27)
    if ac is not None:
        hdr = (hdr & ~0x1FFF) | ac
    return "%028X" % bits.commb_frame(df, hdr, mb, addr)


SCEN = [
    {"name": "mid", "start": None},
    {"name": "antimeridian", "start": (40.0, 179.7), "trk": 90.0, "gs": 500.0, "turn": 0},
    {"name": "antimeridian_w", "start": (-20.0, -179.8), "trk": 270.0, "gs": 450.0, "turn": 0},
    {"name": "equator", "start": (0.15, 30.0), "trk": 180.0, "gs": 480.0, "turn": 0},
    {"name": "greenwich", "start": (51.0, 0.2), "trk": 270.0, "gs": 400.0, "turn": 0},
    {"name": "nl", "start": "nl", "gs": 550.0, "turn": 0},
    {"name": "polar", "start": (86.0, 10.0), "trk": 45.0, "gs": 500.0},
    {"name": "surface", "start": None, "surface": True},
    {"name": "surface_on_zone_edge_far_receiver", "start": "nl_exact", "surface": True, "gs": 0.0, "turn": 0, "trk": 90.0},
    {"name": "surface_eq", "start": (0.01, 100.0), "trk": 180.0, "gs": 30.0, "surface": True, "turn": 0},
    # repeated take-offs and landings next to the receiver (or with no receiver position at all): mixed surface/airborne
    # even/odd pairs, first contact at lift-off or touchdown
    {"name": "transition", "start": None, "surface": True, "gs": 25.0},
]


def gen_history(rng, scen_name=None, window=False):
    """returns dict(events=[(t, kind, msg, addr, truth)], rx=(lat,lon)|None, acs=[...])"""
    nac = rng.randint(1, 4)
    acs = []
    rx = None
    no_rx = rng.random() < 0.25   # receiver position unknown: surface pairs cannot be decoded at all
    for k in range(nac):
        sc = dict(rng.choice(SCEN) if scen_name is None else next(s for s in SCEN if s["name"] == scen_name))
        if sc["start"] is None:
            sc["start"] = (rng.uniform(-75, 75), rng.uniform(-180, 180))
        elif sc["start"] == "nl":
            tlat = rng.choice(list(cpr.TRANS.values())[:-1])
            sgn = rng.choice((-1, 1))
            sc["start"] = (sgn * (tlat - 0.08), rng.uniform(-180, 180))
            sc["trk"] = 0.0 if sgn > 0 else 180.0
        elif sc["start"] == "nl_exact":
            # parked exactly ON a zone boundary (the even and the odd frame may quantise to different sides: no pair ever decodes),
            # with the receiver 60-300 NM away - in the same quadrant, but far beyond the reach of a single-frame decode
            if rx is None:
                tlat = rng.choice([v_ for v_ in cpr.TRANS.values() if 10 < v_ < 75])
                sgn = rng.choice((-1, 1))
                sc["start"] = (sgn * tlat, rng.uniform(-180, 180))
                if not no_rx:
                    rx = cpr.destination(sc["start"][0], sc["start"][1], rng.choice((80, 100, 260, 280, rng.uniform(0, 360))), rng.uniform(60, 300))
                sc["far"] = True
            else:
                # a receiver is already in place: a boundary 1 - 4.5 degrees of latitude (60 - 270 NM) north or south of it
                near = [s_ * v_ for v_ in cpr.TRANS.values() for s_ in (1, -1) if 1.0 < abs(s_ * v_ - rx[0]) < 4.5 and 10 < v_ < 75]
                if near:
                    sc["start"] = (rng.choice(near), cprgen.wrap180(rx[1] + rng.uniform(-2.0, 2.0)))
                    sc["far"] = True
                else:
                    sc["start"] = None
        if sc["start"] is None:
            sc["start"] = (rng.uniform(-75, 75), rng.uniform(-180, 180))
        if window:
            sgn = rng.choice((-1, 1))
            sc = {"name": "window", "start": (sgn * (87.0 - rng.uniform(0.0001, 0.0006)), rng.uniform(-180, 180)),
                  "trk": 0.0 if sgn > 0 else 180.0, "gs": rng.uniform(30, 90), "turn": 0}
        if sc.get("surface") and rx is not None and not no_rx and not sc.get("far"):
            # surface targets must stay within reach of the one receiver (premise of surface decoding)
            sc["start"] = cpr.destination(rx[0], rx[1], rng.uniform(0, 360), rng.uniform(0, 25))
        a = Ac(rng, sc)
        a.scen = sc["name"]
        acs.append(a)
        if a.surface and rx is None and not no_rx:
            rx = cpr.destination(a.lat, a.lon, rng.uniform(0, 360), rng.uniform(0, 8))
    if rx is None and not no_rx and rng.random() < 0.5:
        rx = (acs[0].lat, acs[0].lon)
    noise = [rng.getrandbits(24) for _ in range(rng.randint(0, 3))]
    commb_only = [rng.getrandbits(24) for _ in range(rng.randint(1, 2))]
    events = []
    t = float(rng.choice((0, 1000, 1446332400))) + rng.random()
    n = rng.randint(50, 260)
    for a in acs:
        a.t = t
    mute = {}  # addr -> silent until
    outage_until = -1.0
    relocate = False
    relocations = [0]
    transitions = [0]
    exact_repeats = [0]
    for _ in range(n):
        c = rng.random()
        if t < outage_until:
            # position outage: only non-position messages, often enough to keep the aircraft listed
            t += rng.uniform(10, 45)
            a = rng.choice(acs)
            events.append((t, "adsb", other_adsb(rng, a), a.addr, None))
            continue
        if relocate and outage_until > 0:
            relocate = False
            # (only aircraft whose last position message is more than 185 s old: a younger fix is the reference of the next decode,
            #  and a jump of miles within seconds is outside the premise of reference decoding)
            cand = [a_ for a_ in acs if t - getattr(a_, "last_pos_t", -1e18) > 185.0]
            if rx is not None and not no_rx and cand and rng.random() < 0.6:
                # ... and during the outage one of the aircraft - wherever on the globe its last fix was - has flown on and LANDED
                # at the receiver's airfield: its next positions are surface positions within reach of the receiver, while the
                # last fix in its record is stale and may be a quarter of the globe away
                a = rng.choice(cand)
                a.lat, a.lon = cpr.destination(rx[0], rx[1], rng.uniform(0, 360), rng.uniform(0, 25))
                a.surface, a.gs, a.turn, a.t = True, rng.uniform(0, 30), 0, t
                if 87.0 < abs(a.lat) <= WINDOW_HI:
                    a.tainted = True
                relocations[0] += 1
        if rng.random() < 0.012:
            outage_until = t + rng.choice((200, 400, 1200, 2400))
            relocate = True
        if c < 0.80:
            t += rng.uniform(0.05, 1.5)
        elif c < 0.93:
            t += rng.uniform(1.5, 9.5)
        elif c < 0.97:
            t += rng.uniform(10, 60)
        elif c < 0.99:
            t += rng.uniform(61, 120)
        else:
            t += rng.uniform(180, 400)
        a = rng.choice(acs)
        if mute.get(a.addr, 0) > t:
            a = rng.choice(acs)
        if rng.random() < 0.01:
            mute[a.addr] = t + rng.uniform(65, 200)
        r = rng.random()
        if r < 0.58:
            a.advance(t)
            # take-off / landing transitions
            p_flip = 0.12 if a.scen == "transition" else 0.01
            # (no surface traffic near the poles: within a few NM of a pole consecutive surface positions are more than the
            #  45 degrees of longitude apart that the surface format can resolve - outside the premise of any decoder)
            if rng.random() < p_flip and (a.surface or ((no_rx or (rx is not None and cpr.arc_deg(a.lat, a.lon, rx[0], rx[1]) * 60 < 35))
                                                         and abs(a.lat) < 80)):
                a.surface = not a.surface
                a.gs = rng.uniform(0, 40) if a.surface else (rng.uniform(100, 160) if a.scen == "transition" else rng.uniform(120, 300))
                if a.scen == "transition" and not a.surface:
                    a.turn = 3.0   # stay in the pattern around the airfield
                transitions[0] += 1
            m = pos_msg(rng, a)
            a.last_pos_t = t
            events.append((t, "adsb", m, a.addr, ("pos", a.lat, a.lon, a.surface, a.tainted, a.scen)))
        elif r < 0.78:
            if rng.random() < 0.25 and getattr(a, "last_other", None):
                # the very same string again (an identification squitter does not change for the whole flight): still a message
                # heard from this aircraft - it keeps it listed
                events.append((t, "adsb", a.last_other, a.addr, None))
                exact_repeats[0] += 1
            else:
                a.last_other = other_adsb(rng, a)
                events.append((t, "adsb", a.last_other, a.addr, None))
            if rng.random() < 0.12:
                # the same aircraft heard twice with the SAME stamp (two receivers, a coarse clock): two velocity squitters, one
                # of them with "no vertical rate information"
                for vr_ in rng.sample((0, rng.randrange(1, 512)), 2):
                    me = radsb.tc19(1, rng.randrange(2), rng.randrange(1, 1024), rng.randrange(2), rng.randrange(1, 1024), rng.randrange(2),
                                    rng.randrange(2), vr_, rng.randrange(2), rng.randrange(128))
                    events.append((t, "adsb", "%028X" % bits.es_frame(a.df, 5, a.addr, me), a.addr, None))
        elif r < 0.90:
            events.append((t, "commb", commb_msg(rng, a.addr), a.addr, None))
        elif r < 0.95 and noise:
            ad = rng.choice(noise)
            x = bits.es_frame(rng.choice((17, 18)), rng.randrange(8), ad, rng.getrandbits(56))
            events.append((t, "adsb", "%028X" % x, ad, ("noise",)))
        elif r < 0.97 and noise:
            ad = rng.choice(noise)
            events.append((t, "commb", commb_msg(rng, ad), ad, None))
        else:
            ad = rng.choice(commb_only)
            events.append((t, "commb", commb_msg(rng, ad), ad, ("commb_only",)))
    zero = False
    if events and rng.random() < 0.3:
        # "timestamps any non-decreasing reals": the clock of this history passes through EXACTLY 0 (a receiver counting from its
        # own start, a replay relative to an event) - earlier stamps are negative, one batch is processed at tnow == 0
        pivot = events[rng.randrange(len(events))][0]
        events = [(t_ - pivot,) + tuple(rest) for (t_, *rest) in events]
        zero = True
    return {"events": events, "rx": rx, "commb_only": commb_only, "transitions": transitions[0], "clock_through_zero": zero,
            "exact_repeats": exact_repeats[0], "relocations": relocations[0]}


COMMB_FIELDS = {"tas": "tas50", "roll": "roll50", "rtrk": "rtrk50", "trk50": "trk50", "gs50": "gs50", "ias": "ias60", "hdg": "hdg60",
                "mach": "mach60", "roc60baro": "vr60baro", "roc60ins": "vr60ins"}


def canon(rec):
    out = {}
    for k, v in rec.items():
        if isinstance(v, str):
            v = v.upper()
        if isinstance(v, float) and math.isnan(v):
            v = "nan"
        out[str(k)] = v
    return out


def rx_form(ctx, hist):
    """the receiver location in one of the forms a caller hands it over in: a list or tuple of floats, a numpy array, or the
    two STRINGS the shipped viewer passes on from its command line (--latlon LAT LON is parsed without a type); repr() of a
    float reads back to the same float, so the position the tracker works with is the same in every form"""
    rx = hist["rx"]
    k = (len(hist["events"]) + int(abs(rx[0]) * 1000)) % 4
    if k == 1:
        ctx.hit("receiver_location_given_as_strings")
        return [repr(float(rx[0])), repr(float(rx[1]))]
    if k == 2:
        return (float(rx[0]), float(rx[1]))
    if k == 3:
        import numpy as np
        return np.array([rx[0], rx[1]], dtype=float)
    return rx


def play(ctx, hist, lower=False, judge=True):
    """feed the history; returns (final table, ok)"""
    Decode = get_decode()
    rng = ctx.rng
    dump = None
    if hist.get("dumpto"):
        import tempfile
        dump = tempfile.mkdtemp(prefix="pmv-dump-")
    d = Decode(latlon=rx_form(ctx, hist), dumpto=dump) if hist["rx"] else Decode(dumpto=dump)
    try:
        return _play(ctx, hist, d, lower, judge)
    finally:
        if dump:
            import shutil
            shutil.rmtree(dump, ignore_errors=True)


def radsb_tc19_any(rng):
    return (19 << 51) | (1 << 48) | rng.getrandbits(48)


def _play(ctx, hist, d, lower, judge):
    rng = ctx.rng
    ev = hist["events"]
    truth = {}
    last_any = {}    # addr -> time of last message that counted
    created = set()
    present_before = set()
    k = 0
    bs = hist.get("batch", None)
    import random as _r
    brng = _r.Random(len(ev))
    ever_evicted = set()
    commb_vals = {}
    prev_tnow = -1e18
    while k < len(ev):
        nb = brng.choice((1, 1, 2, 3, 5, 8)) if bs is None else bs
        batch = ev[k:k + nb]
        zb = None
        if hist.get("clock_through_zero"):
            zb = next((j_ for j_, e_ in enumerate(batch) if e_[0] == 0), None)
            if zb is not None:
                while zb + 1 < len(batch) and batch[zb + 1][0] == 0:
                    zb += 1
                batch = batch[:zb + 1]       # this batch ends with the stamp 0 and is processed at tnow == 0
        idle_gap = (batch[0][0] - prev_tnow) if (batch and prev_tnow > -1e17) else 0.0
        if idle_gap > 2.0 and not hist.get("clock_through_zero") and brng.random() < 0.3:
            # an idle tick: the feeder calls with NOTHING received in this period - the clock still advances and whoever has been
            # silent for more than 61 s by now is gone after this call too
            batch = []
            ctx.hit("idle_call_with_no_messages") if judge else None
        k += len(batch)
        at, am, ct, cm = [], [], [], []
        for (t, kind, m, addr, tr) in batch:
            mm = m.lower() if lower else m
            if kind == "adsb":
                at.append(t)
                am.append(mm)
            else:
                ct.append(t)
                cm.append(mm)
            if tr and tr[0] == "pos":
                truth[(addr, t)] = tr
        if not batch:
            tnow = prev_tnow + brng.uniform(0.5, idle_gap - 0.5)
        else:
            tnow = max(prev_tnow, batch[-1][0] + brng.choice((0.0, 0.01, 0.5)))   # the clock never runs backwards
        if zb is not None and prev_tnow <= 0:
            tnow = brng.choice((0, 0.0))
            ctx.hit("batch_processed_at_tnow_exactly_zero")
        prev_tnow = tnow
        pre = {}
        if judge:
            for (t, kind, m, addr, tr) in batch:
                if tr and tr[0] == "pos" and addr not in pre:
                    rec = d.acs.get("%06X" % addr)
                    if rec is not None and "tpos" in rec and t - rec["tpos"] < 180:
                        pre[addr] = "ref"
                    elif rec is not None:
                        pre[addr] = "pair_or_none"
                    else:
                        pre[addr] = "none"
        if judge and hist.get("decoy"):
            # another tracker of the same process (a second receiver) hears different aircraft in between: none of its business
            dd = hist.setdefault("_decoy_obj", get_decode()(latlon=hist["rx"]) if hist["rx"] else get_decode()())
            drng = _r.Random(k * 7919 + 13)       # its own generator: the batching of the history under test must not change
            a_ = drng.getrandbits(24)
            call(dd.process_raw, [tnow, tnow + 0.1], ["%028X" % bits.es_frame(17, 5, a_, (4 << 51) | drng.getrandbits(48)),
                                                      "%028X" % bits.es_frame(17, 5, a_ ^ 1, radsb_tc19_any(drng))], [tnow], ["%028X" % bits.commb_frame(20, 0, drng.getrandbits(56), a_)], tnow + 0.2)
            ctx.hit("second_tracker_alive")
        r = call(d.process_raw, at, am, ct, cm, tnow)
        ctx.ev()
        if r[0] != "ok":
            if judge:
                ctx.violation("process_raw-raises-%s" % r[1], batch=[(t, kd, m) for (t, kd, m, _, _) in batch], observed=r[1:], rx=hist["rx"])
            return None, False
        if not judge:
            continue
        ctx.hit("calls")
        # model of "heard": ADS-B always counts (creates); Comm-B counts when the aircraft was present
        # within one call all ADS-B messages are handled before the Comm-B ones
        for (t, kind, m, addr, tr) in [b for b in batch if b[1] == "adsb"] + [b for b in batch if b[1] == "commb"]:
            if kind == "adsb":
                created.add(addr)
                last_any[addr] = max(last_any.get(addr, -1e18), t)
            elif addr in created and ("%06X" % addr) in d.acs:
                last_any[addr] = max(last_any.get(addr, -1e18), t)
        # a consumer looks an address up the EAFP way (try: table[addr] / except KeyError): asking about an aircraft that was
        # never listed is a question, not a message - the table is what the frames made it
        for addr_ in hist["commb_only"][:1]:
            try:
                d.acs["%06X" % addr_]
            except KeyError:
                pass
            except Exception as e_:  # noqa
                ctx.violation("table-lookup-of-an-unknown-address-raises-%s" % type(e_).__name__, addr="%06X" % addr_)
                return None, False
        keys = set()
        for key in d.acs.keys():
            try:
                keys.add(int(key, 16))
            except Exception:
                ctx.violation("table-key-not-an-address", key=repr(key))
                return None, False
        for addr in hist["commb_only"]:
            if addr in keys and addr not in created:
                ctx.violation("commb-only-address-listed", addr="%06X" % addr)
                return None, False
        ctx.hit("commb_unknown_ignored")
        for addr, tl in last_any.items():
            age = tnow - tl
            if age <= 59 and addr not in keys:
                ctx.violation("aircraft-missing-although-heard", addr="%06X" % addr, age=age, tnow=tnow)
                return None, False
            if age > 61 and addr in keys:
                ctx.violation("aircraft-listed-although-silent", addr="%06X" % addr, age=age, tnow=tnow)
                return None, False
            if age > 61:
                if addr in present_before:
                    ctx.hit("evicted")
                    ever_evicted.add(addr)
            elif addr in keys and addr in ever_evicted:
                ctx.hit("reappeared")
                ever_evicted.discard(addr)
        present_before = keys
        # positions
        for key, rec in d.acs.items():
            addr = int(key, 16)
            if rec.get("lat") is None or "tpos" not in rec:
                continue
            tr = truth.get((addr, rec["tpos"]))
            if tr is None:
                if any(e[3] == addr and e[4] and e[4][0] == "pos" for e in ev):
                    ctx.violation("position-timestamp-matches-no-message", addr=key, tpos=rec["tpos"])
                    return None, False
                continue  # noise address
            _, tlat, tlon, sfc, tainted, scen = tr
            lat, lon = rec["lat"], rec["lon"]
            if not (isinstance(lat, float) and isinstance(lon, float) and math.isfinite(lat) and math.isfinite(lon)):
                ctx.violation("stored-position-not-finite", addr=key, stored=[lat, lon])
                return None, False
            err = cpr.arc_deg(tlat, tlon, max(-90.0, min(90.0, lat)), lon) + max(0.0, abs(lat) - 90.0)
            ctx.note_max("max_position_err_deg", err if not tainted else 0.0)
            if err > 0.001:
                keyv = "cprNL-window-above-87" if tainted else "stored-position-wrong"
                ctx.violation(keyv, addr=key, t=rec["tpos"], stored=[lat, lon], true=[tlat, tlon], err_deg=err, surface=sfc, scenario=scen,
                              rx=hist["rx"], lower=lower)
                return None, False
            if addr in pre:
                b = pre.pop(addr)
                ctx.hit("branch_ref" if b == "ref" else "branch_global")
            ctx.hit("surface_update" if sfc else "airborne_update")
            if scen in ("antimeridian", "antimeridian_w") and abs(tlon) > 179.9:
                ctx.hit("cross_antimeridian")
            if scen == "equator" and tlat < 0:
                ctx.hit("cross_equator")
            if scen == "nl":
                ctx.hit("cross_nl")
        for addr, b in pre.items():
            ctx.hit("branch_none")
        # Comm-B derived values must come from a reply addressed to that very aircraft
        for (t, kind, m, addr, tr) in batch:
            if kind == "commb":
                mb = (int(m, 16) >> 24) & ((1 << 56) - 1)
                own = commb_vals.setdefault(addr, {})
                for fld, name in COMMB_FIELDS.items():
                    v = C12.fdec(mb, name)
                    if v is not None:
                        own.setdefault(fld, set()).add(round(v, 9))
        attached = False
        for key, rec in d.acs.items():
            addr = int(key, 16)
            for fld in COMMB_FIELDS:
                v = rec.get(fld)
                if v is None:
                    continue
                attached = True
                if round(float(v), 9) not in commb_vals.get(addr, {}).get(fld, ()):
                    ctx.violation("commb-value-not-from-this-aircraft", addr=key, field=fld, value=v, lower=lower)
                    return None, False
        if attached:
            ctx.hit("commb_attached")
    return {k: canon(v) for k, v in d.acs.items()}, True


def m_history(ctx, case):
    import random as _r
    hrng = _r.Random(case["hseed"])
    hist = gen_history(hrng, case.get("scen"), case.get("window", False))
    if case.get("batch"):
        hist["batch"] = case["batch"]
    hist["decoy"] = (case["hseed"] % 4 == 1)
    hist["dumpto"] = (case["hseed"] % 4 == 3)   # one history in ten also writes the CSV dump (robustness of that path)
    ev = hist["events"]
    gaps = [b[0] - a[0] for a, b in zip(ev, ev[1:])]
    for g in gaps:
        ctx.hit("gap_lt10" if g < 10 else "gap_10_180" if g <= 180 else "gap_gt180")
    if hist["transitions"]:
        ctx.hit("transitions", hist["transitions"])
    if hist.get("relocations"):
        ctx.hit("landed_at_the_receivers_airfield_during_a_position_outage", hist["relocations"])
    if hist.get("exact_repeats"):
        ctx.hit("same_squitter_string_repeated", hist["exact_repeats"])
    up, ok = play(ctx, hist, lower=False, judge=True)
    if not ok:
        return
    if case.get("case_compare", True):
        lo, ok2 = play(ctx, hist, lower=True, judge=False)
        ctx.hit("case_compare")
        if not ok2:
            ctx.violation("process_raw-raises-on-lower-case", hseed=case["hseed"])
            return
        a = {int(k, 16): v for k, v in up.items()}
        b = {int(k, 16): v for k, v in lo.items()}
        diff = None
        if set(a) != set(b):
            diff = ("addresses", sorted("%06X" % x for x in set(a) ^ set(b)))
        else:
            for k in a:
                ra, rb = dict(a[k]), dict(b[k])
                if ra != rb:
                    dk = [f for f in set(ra) | set(rb) if ra.get(f) != rb.get(f)]
                    diff = ("fields", "%06X" % k, sorted(dk)[:8])
                    break
        if diff:
            has_letter_addr = any(any(c in "ABCDEF" for c in "%06X" % e[3]) for e in ev if e[1] == "adsb")
            ctx.violation("aa-slice-keeps-input-case" if has_letter_addr else "letter-case-changes-table", diff=diff, hseed=case["hseed"])
    ctx.nontrivial(("h", case["hseed"], case.get("scen"), case.get("window")))
    if ctx.rng.random() < 0.02:
        ctx.sample({"history_seed": case["hseed"], "events": len(ev), "first_events": [(round(t, 2), k, m) for (t, k, m, _, _) in ev[:4]],
                    "aircraft_in_final_table": len(up)})


class Stop(BaseException):
    pass


def m_runloop(ctx, case):
    """Decode.run() with fake pipes: every batch processed exactly once, exception queue stays empty"""
    import random as _r
    Decode = get_decode()
    hrng = _r.Random(case["hseed"])
    hist = gen_history(hrng)
    ev = hist["events"]
    batches = []
    k = 0
    while k < len(ev):
        nb = hrng.choice((1, 2, 4, 8))
        b = ev[k:k + nb]
        k += nb
        batches.append({"adsb_ts": [e[0] for e in b if e[1] == "adsb"], "adsb_msg": [e[2] for e in b if e[1] == "adsb"],
                        "commb_ts": [e[0] for e in b if e[1] == "commb"], "commb_msg": [e[2] for e in b if e[1] == "commb"]})
    batches = batches[:40]
    # ... and at the end a quiet receiver: one batch without any message, two minutes after the last one (the source hands over what
    # it has, even nothing) - everybody has timed out by then, and an EMPTY table is a table the consumer has to be told about
    batches.append({"adsb_ts": [], "adsb_msg": [], "commb_ts": [], "commb_msg": []})

    class RawOut:
        def __init__(self):
            self.q = list(batches)
            self.idle = 0

        def poll(self):
            if self.q:
                return hrng.random() < 0.7
            self.idle += 1
            if self.idle > 3:
                raise Stop()
            return False

        def recv(self):
            return self.q.pop(0)

    class AcIn:
        def __init__(self):
            self.n = 0

        def send(self, acs):
            self.n += 1
            self.last = set(acs.keys())      # what a real pipe would pickle at this moment

    class Q:
        def __init__(self):
            self.items = []

        def put(self, x):
            self.items.append(x)
            if len(self.items) > 50:
                raise Stop()

    d = Decode(latlon=rx_form(ctx, hist)) if hist["rx"] else Decode()
    seen = []
    orig = d.process_raw

    def spy(adsb_ts, adsb_msg, commb_ts, commb_msg, tnow=None):
        seen.append((tuple(adsb_msg), tuple(commb_msg), tuple(adsb_ts), tuple(commb_ts)))
        # the live loop stamps with wall-clock time; use the batch's own time so that histories stay meaningful
        ts = list(adsb_ts) + list(commb_ts)
        clock[0] = max(ts) if ts else clock[0] + 120.0
        return orig(adsb_ts, adsb_msg, commb_ts, commb_msg, tnow=clock[0])

    clock = [min([e[0] for e in ev] or [0.0])]
    d.process_raw = spy
    q = Q()
    acin = AcIn()
    try:
        d.run(RawOut(), acin, q)
    except Stop:
        pass
    except BaseException as e:  # noqa
        if type(e).__name__ == "CaseTimeout":
            raise
        ctx.violation("decode-run-raises", error="%s: %s" % (type(e).__name__, str(e)[:100]))
        return
    ctx.ev(len(seen))
    exp = [(tuple(b["adsb_msg"]), tuple(b["commb_msg"]), tuple(b["adsb_ts"]), tuple(b["commb_ts"])) for b in batches]   # messages AND their own stamps
    if q.items:
        ctx.violation("decode-run-reports-exception", first=str(q.items[0])[:300])
    elif seen != exp:
        k_ = next((j for j in range(min(len(seen), len(exp))) if seen[j] != exp[j]), min(len(seen), len(exp)))
        same_msgs = len(seen) == len(exp) and all(a_[:2] == b_[:2] for a_, b_ in zip(seen, exp))
        ctx.violation("decode-run-hands-on-wrong-time-stamps" if same_msgs else "decode-run-batches-not-exactly-once", processed=len(seen),
                      expected=len(exp), first_difference_at_batch=k_, handed_on=repr(seen[k_][2:])[:160] if k_ < len(seen) else None,
                      fed=repr(exp[k_][2:])[:160] if k_ < len(exp) else None)
    elif acin.n == 0:
        ctx.violation("decode-run-never-publishes")
    elif getattr(acin, "last", None) != set(d.acs.keys()):
        # the loop publishes after every round; when it has come to rest the consumer's copy is the tracker's table
        ctx.violation("published-table-differs-from-the-trackers-table-at-rest", published=sorted(acin.last)[:6], table=sorted(d.acs.keys())[:6])
    elif not d.acs:
        ctx.hit("run_loop_published_an_empty_table_after_everybody_timed_out")
    ctx.hit("run_loop")
    ctx.nontrivial(("run", case["hseed"]))


def m_special(ctx, case):
    """an aircraft passing exactly over a pole, the equator at Greenwich, or along the antimeridian: a pair at the special point,
    then single frames a few hundred metres on - what the table stores is within 0.001 degree of where the aircraft is"""
    Decode = get_decode()
    rng = ctx.rng
    for (lat, lon, dlat, dlon) in ((90.0, 0.0, -0.004, 0.0), (90.0, 123.0, -0.004, 0.0), (-90.0, 0.0, 0.004, 0.0), (-90.0, -77.0, 0.004, 0.0),
                                   (0.0, 0.0, 0.002, 0.002), (0.0, 180.0, 0.002, -0.002), (45.0, -180.0, 0.0, 0.002), (45.0, 179.9999, 0.0, 0.002),
                                   (87.0, 10.0, 0.0, 0.003), (-87.0, 10.0, 0.0, 0.003)):
        addr = rng.getrandbits(24)
        d = Decode()
        t = 1000.0
        track = [(lat, lon, 0), (lat, lon, 1)]
        for k in range(1, 5):
            la = lat + k * dlat
            la = 180.0 - la if la > 90.0 else -180.0 - la if la < -90.0 else la
            track.append((la, cprgen.wrap180(lon + k * dlon), k & 1))
        for (la, lo, par) in track:
            yz, xz = cpr.encode(la, lo, par, False)[:2]
            hx = "%028X" % bits.es_frame(17, 5, addr, cpr.me_airborne(11, 0, 0, 0x5A5, 0, par, yz, xz))
            r = call(d.process_raw, [t], [hx], [], [], t + 0.1)
            ctx.ev()
            rec = d.acs.get("%06X" % addr, {})
            if r[0] != "ok":
                ctx.violation("process_raw-raises-%s" % r[1], batch=[(t, hx)], observed=r[1:])
                break
            if rec.get("lat") is not None and rec.get("tpos") == t:
                elat = abs(rec["lat"] - la)
                elon = cpr.lon_diff(rec["lon"], lo) * max(math.cos(math.radians(la)), 0.0)
                if elat > 0.001 or elon > 0.001:
                    ctx.violation("stored-position-wrong", addr="%06X" % addr, t=t, stored=[rec["lat"], rec["lon"]], true=[la, lo],
                                  scenario="special point (%s, %s)" % (lat, lon))
                    break
            t += 1.0
        ctx.hit("aircraft_exactly_over_pole_equator_antimeridian")
    ctx.nontrivial(("special", ctx.seed, ctx.shard))


MONITORS = {"history": m_history, "runloop": m_runloop, "special": m_special}


def cases(ctx):
    quick = ctx.tier == "quick"
    i = 0
    base = ctx.seed * 1000003
    yield "special", {}
    for sc in SCEN:
        for rep in range(8 if quick else 40):
            if ctx.mine(i):
                yield "history", {"hseed": base + i, "scen": sc["name"], "batch": 1 if rep == 0 else None}
            i += 1
    for rep in range(48 if quick else 120):
        if ctx.mine(i):
            yield "history", {"hseed": base + i, "window": True, "case_compare": False}
        i += 1
    for rep in range(1200 if quick else 40000):
        if ctx.mine(i):
            yield "history", {"hseed": base + i}
        i += 1
    for rep in range(48 if quick else 1000):
        if ctx.mine(i):
            yield "runloop", {"hseed": base + i}
        i += 1
