"""C03 - airborne CPR global decode recovers the encoded position."""
from __future__ import annotations

import datetime

from .. import core
from ..probe import call
from ..ref import bits, cpr
from .. import cprgen
from .C06 import WINDOW_HI

LEVEL = "exploration"
BRANCH_TARGETS = ['pyModeS.decoder.bds.bds05:airborne_position', 'pyModeS.decoder.adsb:position']
TECHNIQUE = 'runtime monitoring: reference CPR encoder as oracle (round trip decode(encode(x))) with metamorphic argument-swap relation'
LEVEL_TEXT = 'Exploration: every NL band x hemisphere x newer parity reached by construction, boundary-directed and uniform positions; tolerance is the quantisation step the standard prescribes; ambiguous cases (within 1e-9 deg of a transition) are excluded and counted.'
LEVEL_RULE = (
    "adsb.position / adsb.airborne_position called on even/odd airborne frames built by the reference CPR *encoder* from "
    "two positions <=1 NM apart; both argument orders, both time orders, int and datetime stamps, TC 9-18/20-22. Oracle: "
    "value within one quantisation step of the newer frame's position (lon mod 360), None only if NL(rlat_even)!=NL(rlat_odd), "
    "same parity -> RuntimeError, argument swap gives the identical tuple. Non-trivial = pair with both latitudes decoded; "
    "distinct = distinct (frame pair, order) hashes."
)
EXHAUSTIVE_SUBDOMAINS = ["every NL band 1..59 x hemisphere x newer parity (directed, one mid-band position each)"]
ASSUMPTIONS = ["positions whose recovered latitude is within 1e-9 deg of an NL transition are counted as ambiguous, not judged",
               "equal timestamps accept either frame's position"]
REQUIRED = ["none_result", "value_result", "same_parity", "south_wrap", "lon_wrap", "newer_even", "newer_odd",
            "swapped_args", "datetime_ts", "aware_datetime_ts", "dst_change_ts", "datetime_ts_at_the_ends_of_the_range", "position_called_with_reference"] + ["band%d_%s" % (nl, h) for nl in range(1, 60) for h in "NS"]


def in_window(*rl):
    return any(87.0 < abs(x) <= WINDOW_HI for x in rl)


def build(case):
    tc = case["tc"]
    out = []
    for i, (lat, lon) in enumerate((case["p0"], case["p1"])):
        yz, xz, rlat, dlat, dlon = cpr.encode(lat, lon, i, False)
        # every non-position field may differ between the two frames of a pair (they are independent transmissions)
        pf = lambda k: case[k][i] if isinstance(case[k], list) else case[k]  # noqa
        me = cpr.me_airborne(tc[i], pf("ss"), pf("saf"), case["alt"][i], pf("tbit"), i, yz, xz)
        f = bits.es_frame(pf("df"), pf("ca"), case["addr"], me)
        hx = "%028X" % f
        out.append((hx.lower() if case.get("lower") and (case["lower"] >> i) & 1 else hx, rlat))
    return out


def m_global(ctx, case):
    from pyModeS import adsb
    (m0, rl0), (m1, rl1) = build(case)
    te, to = case["te"], case["to"]
    if case.get("dt") == "np":
        # numpy stamps (what pandas / numpy pipelines hand over): same ordering semantics as int | datetime
        import numpy as np
        if case["addr"] & 1:
            b64 = np.datetime64("2024-01-01T00:00:00.000")
            T0, T1 = b64 + np.timedelta64(int(round(te * 1000)), "ms"), b64 + np.timedelta64(int(round(to * 1000)), "ms")
        else:
            T0, T1 = np.float64(te), np.float64(to)
        ctx.hit("numpy_ts")
    elif case.get("dt") == "dst":
        # naive stamps straddling the end of the skipped hour / the repeated hour of a daylight-saving change, while the
        # PROCESS runs in a zone that has one (WORKER_ENV sets TZ): naive datetimes are ordered by their wall-clock value
        lo_ = datetime.datetime(2024, 3, 31, 2, 59, 59, 500000) if case["addr"] % 2 else datetime.datetime(2024, 10, 27, 2, 59, 59, 500000)
        gap_ = abs(te - to) if te != to else 0
        hi_ = lo_ + datetime.timedelta(seconds=min(gap_, 7200))
        T0, T1 = (hi_, lo_) if te > to else (lo_, hi_) if to > te else (lo_, lo_)
        ctx.hit("dst_change_ts")
    elif case.get("dt") == "aware":
        # timezone-aware stamps with DIFFERENT offsets (two feeders): the absolute instant decides which frame is newer
        z0 = datetime.timezone(datetime.timedelta(hours=(case["addr"] % 25) - 12))
        z1 = datetime.timezone(datetime.timedelta(hours=((case["addr"] >> 5) % 25) - 12))
        base = datetime.datetime(2024, 1, 1, 12, tzinfo=datetime.timezone.utc)
        T0 = (base + datetime.timedelta(seconds=te)).astimezone(z0)
        T1 = (base + datetime.timedelta(seconds=to)).astimezone(z1)
        ctx.hit("aware_datetime_ts")
    elif case.get("dt"):
        base = datetime.datetime(2024, 1, 1)
        T0, T1 = base + datetime.timedelta(seconds=te), base + datetime.timedelta(seconds=to)
        if case["addr"] % 4 == 1:
            # a relative clock: elapsed seconds counted from datetime.min (or down from datetime.max) - legal datetime stamps
            # at the very ends of the representable range, where timestamp() / astimezone() conversions overflow
            try:
                lo_s, hi_s = min(te, to), max(te, to)
                if case["addr"] % 8 == 1:
                    b_ = datetime.datetime.min + datetime.timedelta(seconds=max(0.0, -lo_s))
                else:
                    b_ = datetime.datetime.max - datetime.timedelta(seconds=max(0.0, hi_s))
                T0, T1 = b_ + datetime.timedelta(seconds=te), b_ + datetime.timedelta(seconds=to)
                ctx.hit("datetime_ts_at_the_ends_of_the_range")
            except OverflowError:
                pass
        ctx.hit("datetime_ts")
    else:
        T0, T1 = te, to
    fn = adsb.position if case["api"] == "position" else adsb.airborne_position
    extra = ()
    if case["api"] == "position" and case.get("ref"):
        # position() takes an optional receiver location (the live viewer always passes it); it is needed for surface frames
        # only and must not change the globally unambiguous decode of an airborne pair, wherever the receiver is
        extra = tuple(case["ref"])
        ctx.hit("position_called_with_reference")
    r_a = call(fn, m0, m1, T0, T1, *extra)
    r_b = call(fn, m1, m0, T1, T0, *extra)
    ctx.ev(2)
    ctx.hit("swapped_args")
    key_w = "cprNL-window-above-87" if in_window(rl0, rl1) else None
    if r_a != r_b:
        ctx.violation(key_w or "argument-order-changes-result", frames=[m0, m1], te=te, to=to, a=r_a, b=r_b)
        return
    if r_a[0] != "ok":
        if case.get("dt") == "np" and r_a[1] == "TypeError":
            ctx.amb()   # an implementation may refuse stamp types beyond the documented int | datetime: not judged
            return
        ctx.violation("global-decode-raises", frames=[m0, m1], observed=r_a[1:])
        return
    res = r_a[1]
    nl0, nl1 = cpr.NL(rl0), cpr.NL(rl1)
    ambiguous_nl = (cpr.near_transition(rl0) and abs(rl0) != 87.0) or (cpr.near_transition(rl1) and abs(rl1) != 87.0)   # NL(+-87) = 2 is defined explicitly
    hemi = "N" if case["p0"][0] >= 0 else "S"
    if res is None:
        ctx.hit("none_result")
        if ambiguous_nl:
            ctx.amb()
        elif nl0 == nl1:
            ctx.violation(key_w or "none-although-same-NL", frames=[m0, m1], rlat=[rl0, rl1], nl=[nl0, nl1], p0=case["p0"], p1=case["p1"])
        return
    ctx.hit("value_result")
    if ambiguous_nl:
        ctx.amb()  # within 1e-9 deg of a transition either NL (hence None or a value of either band) is fine
        return
    if nl0 != nl1:
        # bands differ: None would have been allowed, but a returned value still has to be the newer frame's position
        ctx.hit("value_although_bands_differ")
    lat, lon = res
    cands = []
    if te >= to:
        cands.append((0, case["p0"], rl0))
    if to >= te:
        cands.append((1, case["p1"], rl1))
    ok = False
    worst = None
    for i, (plat, plon), rl in cands:
        slat, slon, _, _ = cpr.steps(rl, i, False)
        elat = abs(lat - plat)
        elon = cpr.lon_diff(lon, plon)
        if elat <= slat + 1e-9 and elon <= slon + 1e-9:
            ok = True
            ctx.note_max("max_lat_err_steps", elat / slat)
            ctx.note_max("max_lon_err_steps", elon / slon)
        worst = (i, elat, elon, slat, slon)
    ctx.hit("newer_even" if te > to else "newer_odd" if to > te else "equal_ts")
    if case["p0"][0] < 0:
        ctx.hit("south_wrap")
    if lon < 0:
        ctx.hit("lon_wrap")
    ctx.hit("band%d_%s" % (nl0, hemi))
    if not (-90.0 <= lat <= 90.0) or not (-180.0 <= lon <= 180.0):
        ctx.violation(key_w or "result-out-of-range", frames=[m0, m1], result=res)
    elif not ok:
        ctx.violation(key_w or "wrong-position", frames=[m0, m1], te=te, to=to, result=res, p0=case["p0"], p1=case["p1"],
                      err=worst, rlat=[rl0, rl1])
    ctx.nontrivial(("g", m0, m1, te > to, to > te))
    if ctx.rng.random() < 0.0005:
        ctx.sample({"even": m0, "odd": m1, "te": te, "to": to, "result": res, "p_even": case["p0"], "p_odd": case["p1"]})


def m_same_parity(ctx, case):
    from pyModeS import adsb
    (m0, _), (m1, _) = build(case)
    for a, b in ((m0, m0), (m1, m1)):
        for fn in (adsb.position, adsb.airborne_position):
            r = call(fn, a, b, 1, 2)
            ctx.ev()
            if not (r[0] == "exc" and r[1] == "RuntimeError"):
                ctx.violation("same-parity-not-rejected", frames=[a, b], observed=r)
    ctx.hit("same_parity")
    ctx.nontrivial(("sp", m0, m1))


def WORKER_ENV():
    # the workers run in a time zone WITH daylight saving (POSIX rule, no zone database needed): naive datetime stamps must
    # keep their wall-clock order whatever zone the process lives in
    return {"TZ": "CET-1CEST,M3.5.0,M10.5.0/3"}


MONITORS = {"global": m_global, "same_parity": m_same_parity}

TCS = list(range(9, 19)) + [20, 21, 22]


def mkcase(rng, lat, lon, dist_nm=None, order=None):
    d = rng.choice((0.0, rng.uniform(0, 1.0), 1.0, rng.uniform(0, 0.05))) if dist_nm is None else dist_nm
    lat1, lon1 = cpr.destination(lat, lon, rng.uniform(0, 360), d) if d > 0 else (lat, lon)
    lat1 = max(-90.0, min(90.0, lat1))
    if rng.random() < 0.8:
        tca = rng.choice(TCS)
        tc = [tca, tca]
    else:
        grp = rng.choice((list(range(9, 19)), [20, 21, 22]))
        tc = [rng.choice(grp), rng.choice(grp)]
    o = order or rng.choice(("e", "o", "="))
    base = rng.choice((0, 1446332400, 10, rng.randrange(0, 2**31)))
    gap = rng.choice((1, 2, 5, 9, 0.5, 0.4))
    te, to = (base + gap, base) if o == "e" else (base, base + gap) if o == "o" else (base, base)
    c = _mk(rng, locals())
    if c["dt"] is False and rng.random() < 0.12:
        # plain numbers are just numbers: a clock that counts from its own start may read 0 for the NEWER frame and a negative
        # value for the older one (or negative for both) - `t or default` / `t > 0` tests are wrong there
        sh = max(te, to) if rng.random() < 0.6 else max(te, to) + rng.choice((0.25, 7, 1000.5))
        c["te"], c["to"] = te - sh, to - sh
    elif c["dt"] is False and o != "=" and rng.random() < 0.04:
        # nanosecond counters: one stamp a Python int, the other a float, one tick apart above 2**53 - Python compares int and
        # float exactly; packing both into one float64 array (np.argmax([t1, t0])) makes them equal
        big = 17 * 10 ** 17
        c["te"], c["to"] = (big + 1, float(big)) if o == "e" else (float(big), big + 1)
        c["mixed_huge"] = 1
    return c


def _mk(rng, L):
    lat, lon, lat1, lon1, te, to = L["lat"], L["lon"], L["lat1"], L["lon1"], L["te"], L["to"]
    tc, rx = L.get("tc"), L.get("rx")
    return {"p0": [lat, lon], "p1": [lat1, lon1], "tc": tc, "ss": [rng.randrange(4), rng.randrange(4)], "saf": [rng.randrange(2), rng.randrange(2)],
            "alt": [rng.fill(12), rng.fill(12)], "tbit": [rng.randrange(2), rng.randrange(2)], "df": rng.choice((17, 17, 18)),
            "ca": [rng.randrange(8), rng.randrange(8)], "addr": rng.fill(24), "te": te, "to": to,
            "ref": rng.choice((None, None, [lat + rng.uniform(-1, 1), lon + rng.uniform(-1, 1)],
                               [rng.uniform(-90, 90), rng.uniform(-180, 180)], [rng.randint(-90, 90), rng.randint(-180, 179)])),
            "dt": rng.choice((False,) * 14 + (True,) * 3 + ("np", "aware", "dst")), "api": rng.choice(("position", "airborne_position")),
            "lower": rng.choice((0, 0, 0, 0, 0, 0, 0, 1, 2, 3))}


def cases(ctx):
    rng = ctx.rng
    quick = ctx.tier == "quick"
    i = 0
    # directed: every band x hemisphere x newer parity
    import random as _r
    drng = core.Rng(12345)  # seed independent
    for nl in range(1, 60):
        for sgn in (1, -1):
            for order in ("e", "o"):
                c = mkcase(drng, sgn * cprgen.band_mid(nl), drng.uniform(-180, 180), dist_nm=drng.uniform(0, 0.2), order=order)
                c["dt"] = (nl % 7 == 0)
                if ctx.mine(i):
                    yield "global", c
                i += 1
    for k in range(ctx.share(400)):
        lat = cprgen.rand_sphere_lat(rng)
        yield "same_parity", mkcase(rng, lat, rng.uniform(-180, 180))
    n = ctx.share(600000 if quick else 12000000)
    dl = cprgen.directed_lats(rng, n // 2 + 1)
    for k in range(n):
        if k % 2 == 0:
            lat = dl[k // 2]
        else:
            lat = cprgen.rand_sphere_lat(rng)
        lon = cprgen.directed_lon(rng, lat, k & 1)
        yield "global", mkcase(rng, lat, lon)
