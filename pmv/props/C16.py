"""C16 - stream framing is independent of how the byte stream is chunked."""
from __future__ import annotations

import bisect
import contextlib
import io
import itertools
import random

from .. import core
from ..probe import call
from ..ref import bits
from ..ref import stream as rs

LEVEL = "exploration"
BRANCH_TARGETS = ['pyModeS.extra.tcpclient:TcpClient.read_beast_buffer', 'pyModeS.extra.tcpclient:TcpClient.read_beast_buffer_rssi_piaware', 'pyModeS.extra.tcpclient:TcpClient.read_raw_buffer', 'pyModeS.extra.tcpclient:TcpClient.read_skysense_buffer', 'pyModeS.extra.tcpclient:TcpClient.run', 'pyModeS.streamer.source:NetSource.handle_messages']
TECHNIQUE = 'runtime monitoring: history + model (prefix/lower/upper-bound checker after every read) over exhaustive single and double cuts of serialised streams; conservation monitor on NetSource; loopback end-to-end run of TcpClient.run()'
LEVEL_TEXT = 'Fault-free delivery histories: every single cut and every pair of cuts of each generated stream is executed (exhaustive for those streams), multi-cuts sampled; the end-to-end tier judges the recv() segmentation actually observed.'
LEVEL_RULE = (
    "TcpClient.read_beast_buffer / read_beast_buffer_rssi_piaware / read_raw_buffer / read_skysense_buffer driven on the "
    "real parser object: a known frame list (unique payloads; 0x1A forced into timestamp, signal level, every message byte "
    "and the last byte; Beast types 1/4 interleaved; short and long frames) is serialised by the reference serialiser and "
    "delivered under every single cut and every pair of cuts (exhaustive) plus random multi-cuts down to 1-byte pieces; "
    "after every read the concatenated output must be an exact prefix of the admitted frame list, no shorter than the "
    "frames already followed by the next frame start and no longer than the frames fully received. NetSource.handle_messages "
    "with fake pipe: conservation/ordering/exactly-once. End-to-end: real TcpClient.run() over loopback TCP (zmq STREAM) with "
    "the observed recv() segmentation recorded. Distinct = distinct (stream, segmentation) hashes."
)
EXHAUSTIVE_SUBDOMAINS = ["every single cut and every pair of cuts of each generated stream, per format"]
ASSUMPTIONS = ["streams start at a frame boundary and end with a sentinel frame, so every judged frame is eventually followed "
               "by a frame start", "end-to-end sessions whose bytes were not all delivered before the receive timeout are "
               "counted as inconclusive sessions, never as violations"]
REQUIRED = ["e2e_quiet_spells_between_reads", "beast_run_of_64_or_more_non_mode_s_frames", "two_clients_parsing_in_two_threads", "e2e_empty_parts_in_mid_stream", "batches_read_back_after_later_reads", "beast_single", "beast_double", "beast_random", "beast_cut_inside_escape", "beast_cut_after_frame_start",
            "beast_rssi", "raw_single", "raw_double", "sky_single", "sky_double", "netsource", "netsource_lower_or_mixed_case_frames", "netsource_commb_backlog_over_1000", "second_client_alive", "e2e_sessions", "e2e_client_of_another_format_alive", "client_of_another_format_alive"]
# e2e_midframe_boundary (a recv() boundary inside a frame was actually observed) is reported in the evidence but not
# required: TCP may coalesce pieces on a loaded machine and that must not turn the verdict inconclusive


class StopRun(BaseException):
    pass


def new_client(kind):
    with contextlib.redirect_stdout(io.StringIO()):
        from pyModeS.extra.tcpclient import TcpClient
    return TcpClient("127.0.0.1", 1, kind)


def mk_stream(kind, specs):
    """returns stream bytes, frame ends, expected list [(end, msg)], extra bytes needed to know a frame is complete"""
    frames = []
    exp = []
    for sp in specs:
        msg = sp["msg"]
        if kind == "beast":
            f = rs.beast_frame(sp["t"], bytes.fromhex(sp["ts"]), sp["sig"], bytes.fromhex(msg))
        elif kind == "raw":
            f = rs.avr_frame(msg if not sp.get("lower") else msg.lower(), sp.get("sep", "\n"))
        else:
            f = rs.skysense_frame(bytes.fromhex(msg), bytes.fromhex(sp["ts"]), bytes.fromhex(sp["rs"]))
        frames.append(f)
    stream, ends = rs.build(frames)
    for sp, e in zip(specs, ends):
        if sp.get("emit", True):
            m = sp["msg"].upper()
            if kind == "raw":
                m = sp["msg"].lower() if sp.get("lower") else sp["msg"]
                e = e - len(sp.get("sep", "\n"))
            exp.append((e, m))
    extra = {"beast": 2, "raw": 0, "sky": 1}[kind]
    return stream, ends, exp, extra


READERS = {"beast": "read_beast_buffer", "beast_rssi": "read_beast_buffer_rssi_piaware", "raw": "read_raw_buffer",
           "sky": "read_skysense_buffer"}


def run_seg(ctx, kind, reader, stream, cuts, exp, extra, info):
    c = new_client({"beast_rssi": "beast", "sky": "skysense"}.get(kind, kind))
    if len(stream) % 4 == 1:
        c_other = new_client([k for k in ("raw", "beast", "skysense") if k != {"beast_rssi": "beast", "sky": "skysense"}.get(kind, kind)][len(stream) // 4 % 2])   # noqa: F841
        ctx.hit("client_of_another_format_alive")
    fn = getattr(c, READERS[kind])
    # a second client object of the same kind is alive and parsing another feed in between (two receivers in one program)
    c2 = new_client({"beast_rssi": "beast", "sky": "skysense"}.get(kind, kind)) if len(stream) % 3 == 0 else None
    fn2 = getattr(c2, READERS[kind]) if c2 is not None else None
    ends = [e for e, _ in exp]
    msgs_exp = [m for _, m in exp]
    emitted = []
    batches = []
    pos = 0
    for cut in list(cuts) + [len(stream)]:
        if cut <= pos:
            continue
        if c2 is not None:
            c2.buffer.extend(bytes(reversed(stream[pos:cut])) + stream[:7])
            call(fn2)
            ctx.hit("second_client_alive")
        if (pos + len(stream)) % 5 == 0:
            r0 = call(fn)                      # a read that brought nothing: the reader runs on what it already holds
            if r0[0] == "ok" and r0[1]:
                batches.append(r0[1])
                for m in r0[1]:
                    emitted.append(m[0])
            ctx.hit("reader_called_with_nothing_new")
        c.buffer.extend(stream[pos:cut])
        pos = cut
        r = call(fn)
        ctx.ev()
        if r[0] != "ok":
            ctx.violation("%s-parser-raises-%s" % (kind, r[1]), cuts=list(cuts), observed=r[1:], **info)
            return False
        batches.append(r[1])
        for m in (r[1] or []):
            emitted.append(m[0])
            if kind == "beast_rssi" and not (len(m) == 3 and isinstance(m[1], float)):
                ctx.violation("beast_rssi-shape", observed=repr(m)[:80], **info)
                return False
        lower = bisect.bisect_right(ends, pos - extra)
        upper = bisect.bisect_right(ends, pos)
        n = len(emitted)
        if emitted != msgs_exp[:n]:
            k = next((j for j in range(min(n, len(msgs_exp))) if emitted[j] != msgs_exp[j]), min(n, len(msgs_exp)))
            got = emitted[k] if k < n else None
            if got in msgs_exp[:k]:
                mech = "duplicated"
            elif got in msgs_exp:
                mech = "frame-lost-or-reordered"
            else:
                mech = "frame-corrupted-truncated-or-merged"
            ctx.violation("%s-%s" % (kind.replace("_rssi", ""), mech), cuts=list(cuts), delivered=pos, index=k, emitted=got,
                          expected=msgs_exp[k] if k < len(msgs_exp) else None, **info)
            return False
        if n < lower:
            ctx.violation("%s-frame-lost-or-late" % kind.replace("_rssi", ""), cuts=list(cuts), delivered=pos, emitted=n,
                          complete_and_followed=lower, **info)
            return False
        if n > upper:
            ctx.violation("%s-frame-emitted-before-complete" % kind.replace("_rssi", ""), cuts=list(cuts), delivered=pos, emitted=n,
                          complete=upper, **info)
            return False
    # a consumer may keep the batch objects it was handed (queue.put(messages)) and read them later: what was handed over in
    # one read is not emptied, refilled or edited by a later read
    kept = [m[0] for b in batches if b for m in b]
    if kept != emitted:
        ctx.violation("%s-batch-handed-over-is-modified-by-a-later-read" % kind.replace("_rssi", ""), cuts=list(cuts)[:40], as_handed_over=emitted[:6],
                      read_back_later=kept[:6], **info)
        return False
    ctx.hit("batches_read_back_after_later_reads")
    return True


def cut_classes(ctx, stream, cut):
    if 0 < cut < len(stream):
        if stream[cut - 1] == 0x1A and stream[cut] == 0x1A:
            ctx.hit("beast_cut_inside_escape")
        if stream[cut - 1] == 0x1A and stream[cut] != 0x1A:
            ctx.hit("beast_cut_after_frame_start")


def m_stream(ctx, case):
    kind = case["kind"]
    stream, ends, exp, extra = mk_stream("beast" if kind == "beast_rssi" else kind, case["specs"])
    info = {"kind": kind, "stream": stream.hex()}
    n = len(stream)
    mode = case["mode"]
    label = kind.split("_")[0]
    if mode == "single":
        for a in range(1, n):
            if kind.startswith("beast"):
                cut_classes(ctx, stream, a)
            if not run_seg(ctx, kind, None, stream, (a,), exp, extra, info):
                break
        ctx.hit(label + "_single", n - 1)
    elif mode == "double":
        lo, hi = case["range"]
        cnt = 0
        ok = True
        for a in range(max(1, lo), min(hi, n - 1)):
            for b in range(a + 1, n):
                cnt += 1
                if not run_seg(ctx, kind, None, stream, (a, b), exp, extra, info):
                    ok = False
                    break
            if not ok:
                break
        ctx.hit(label + "_double", cnt)
    elif mode == "random":
        rng = ctx.rng
        for _ in range(case["n"]):
            k = rng.choice((3, 4, 6, 10, 20, n // 2))
            cuts = sorted(set(rng.randrange(1, n) for _ in range(k)))
            if not run_seg(ctx, kind, None, stream, cuts, exp, extra, info):
                break
        run_seg(ctx, kind, None, stream, range(1, n), exp, extra, info)      # 1-byte pieces
        run_seg(ctx, kind, None, stream, (), exp, extra, info)               # one piece
        ctx.hit(label + "_random", case["n"] + 2)
    if kind == "beast_rssi":
        ctx.hit("beast_rssi")
    ctx.nontrivial(("st", kind, mode, case.get("range"), stream.hex()))
    if ctx.rng.random() < 0.03:
        ctx.sample({"format": kind, "mode": mode, "stream_hex": stream.hex()[:160] + "...", "frames": len(ends), "expected_msgs": [m for _, m in exp][:3]})


class FakePipe:
    def __init__(self):
        self.sent = []

    def send(self, obj):
        import copy
        self.sent.append(copy.deepcopy(obj))


class Flag:
    value = False


def m_netsource(ctx, case):
    with contextlib.redirect_stdout(io.StringIO()):
        from pyModeS.streamer.source import NetSource
    src = NetSource("127.0.0.1", 1, "beast")
    src.raw_pipe_in = FakePipe()
    src.stop_flag = Flag()
    acc_a, acc_c = [], []   # accepted so far (msg, t)
    for batch in case["batches"]:
        msgs = [[m, t] for m, t in batch]
        r = call(src.handle_messages, msgs)
        ctx.ev()
        if r[0] != "ok":
            ctx.violation("netsource-raises", batch=batch, observed=r[1:])
            return
        for m, t in batch:
            if len(m) == 28:
                df = min(int(m[:2], 16) >> 3, 24)
                if df in (17, 18):
                    acc_a.append((m, t))
                elif df in (20, 21):
                    acc_c.append((m, t))
        sent_a = [(m, t) for d in src.raw_pipe_in.sent for m, t in zip(d["adsb_msg"], d["adsb_ts"])]
        sent_c = [(m, t) for d in src.raw_pipe_in.sent for m, t in zip(d["commb_msg"], d["commb_ts"])]
        held_a = list(zip(src.local_buffer_adsb_msg, src.local_buffer_adsb_ts))
        held_c = list(zip(src.local_buffer_commb_msg, src.local_buffer_commb_ts))
        if sent_a + held_a != acc_a or sent_c + held_c != acc_c:
            ctx.violation("netsource-conservation-broken", accepted=[len(acc_a), len(acc_c)], sent=[len(sent_a), len(sent_c)],
                          held=[len(held_a), len(held_c)], batch=batch)
            return
        if len(held_a) > 1:
            ctx.violation("netsource-batch-not-flushed", held=len(held_a))
            return
        for d in src.raw_pipe_in.sent:
            if set(d.keys()) != {"adsb_ts", "adsb_msg", "commb_ts", "commb_msg"} or len(d["adsb_ts"]) != len(d["adsb_msg"]) \
                    or len(d["commb_ts"]) != len(d["commb_msg"]):
                ctx.violation("netsource-malformed-batch", sent=repr(d)[:200])
                return
    ctx.hit("netsource")
    if case.get("flood"):
        ctx.hit("netsource_commb_backlog_over_1000")
        if src.local_buffer_commb_msg or len(sent_c) != len(acc_c):
            ctx.violation("netsource-conservation-broken", accepted=[len(acc_a), len(acc_c)], sent=[len(sent_a), len(sent_c)], note="after the final hand-over")
    ctx.nontrivial(("ns", repr(case["batches"])[:2000]))


def m_e2e(ctx, case):
    """real TcpClient.run() against a loopback TCP server"""
    import socket
    import threading
    import time
    with contextlib.redirect_stdout(io.StringIO()):
        from pyModeS.extra.tcpclient import TcpClient
    import zmq
    kind = case["kind"]
    stream, ends, exp, extra = mk_stream(kind, case["specs"])
    pieces = []
    pos = 0
    for cut in case["cuts"] + [len(stream)]:
        if cut > pos:
            pieces.append(stream[pos:cut])
            pos = cut
    srv = socket.socket()
    srv.bind(("127.0.0.1", 0))
    srv.listen(1)
    port = srv.getsockname()[1]

    def serve():
        try:
            srv.settimeout(10)
            conn, _ = srv.accept()
            conn.setsockopt(socket.IPPROTO_TCP, socket.TCP_NODELAY, 1)
            time.sleep(0.05)
            for p in pieces:
                conn.sendall(p)
                time.sleep(case["delay"])
            time.sleep(1.0)
            conn.close()
        except Exception:
            pass
        finally:
            srv.close()

    th = threading.Thread(target=serve, daemon=True)
    th.start()
    rec = {"sizes": [], "emitted": [], "timeouts": 0}
    if kind == "sky":
        exp = exp[:-1]   # the last Skysense frame is never followed by a frame start, so it is never due
    sentinel = exp[-1][1]

    class SockProxy:
        def __init__(self, s):
            self._s = s

        def _note(self, data):
            return data

        def recv(self, *a, **k):
            try:
                d = self._s.recv(*a, **k)
            except zmq.error.Again:
                rec["timeouts"] += 1
                raise StopRun("timeout")
            rec["sizes"].append(len(d))
            return d

        def recv_multipart(self, *a, **k):
            # a receive time-out while the feed pauses between two chunks (RCVTIMEO expiring) takes nothing from the stream:
            # the run loop has to go on with the bytes it already holds
            rec["calls"] = rec.get("calls", 0) + 1
            if "vclock" in rec and rec["calls"] % 2 == 0:
                rec["vclock"]["off"] += (11.0, 61.0, 3600.0)[(rec["calls"] // 2) % 3]
            # everything received so far has been through the parser: note (bytes delivered, frames handed on)
            rec.setdefault("checkpoints", []).append((sum((x[-1] if isinstance(x, list) else x) for x in rec["sizes"]), len(rec["emitted"])))
            if case.get("again_every") and rec["calls"] % case["again_every"] == 0 and rec.get("injected", 0) < 200:
                rec["injected"] = rec.get("injected", 0) + 1
                raise zmq.error.Again()
            if case.get("empties") and rec["calls"] % 3 == 1 and rec.get("empty_parts", 0) < 300 and rec["sizes"]:
                # "arbitrary pieces" include an EMPTY one: a zero-length data part in the middle of the stream (what a zmq STREAM
                # socket delivers for a connection event) adds nothing and takes nothing
                rec["empty_parts"] = rec.get("empty_parts", 0) + 1
                return [b"\x00pmv-peer", b""]
            try:
                parts = self._s.recv_multipart(*a, **k)
            except zmq.error.Again:
                rec["timeouts"] += 1
                raise StopRun("timeout")
            rec["sizes"].append([len(p) for p in parts])
            return parts

        def __getattr__(self, nm):
            return getattr(self._s, nm)

    class Client(TcpClient):
        def connect(self):
            TcpClient.connect(self)
            self.socket.setsockopt(zmq.RCVTIMEO, 2500)
            self.socket = SockProxy(self.socket)

        def handle_messages(self, messages):
            rec.setdefault("batches", []).append(messages)
            for m in messages:
                rec["emitted"].append(m[0])
            if sentinel in rec["emitted"]:
                raise StopRun("sentinel")

    c = Client("127.0.0.1", port, {"sky": "skysense"}.get(kind, kind))
    if len(stream) % 2 == 0:
        # another receiver of a DIFFERENT wire format was set up in the same program after this one (one Beast and one AVR feed,
        # say): what a client object does with its own stream is a matter of that object alone
        other = [k for k in ("raw", "beast", "skysense") if k != {"sky": "skysense"}.get(kind, kind)][len(stream) // 2 % 2]
        c_other = TcpClient("127.0.0.1", 1, other)   # noqa: F841  (kept alive to the end of the session)
        ctx.hit("e2e_client_of_another_format_alive")
    err = None
    # slow delivery: the clocks a client can read (time.time / monotonic / perf_counter, looked up through the time module)
    # jump ahead by seconds, minutes or an hour between two reads - TCP promises nothing about timing, so no frame may be
    # lost because the stream was quiet for a while.  (threading, zmq and the socket layer hold their own clock references.)
    real_clocks = (time.time, time.monotonic, time.perf_counter)
    vclock = {"off": 0.0}
    if case.get("slow"):
        time.time = lambda: real_clocks[0]() + vclock["off"]
        time.monotonic = lambda: real_clocks[1]() + vclock["off"]
        time.perf_counter = lambda: real_clocks[2]() + vclock["off"]
        rec["vclock"] = vclock
    try:
        c.run()
    except StopRun:
        pass
    except BaseException as e:  # noqa
        if type(e).__name__ == "CaseTimeout":
            raise   # a hang is reported as inconclusive by the runner, never as a verdict
        err = "%s: %s" % (type(e).__name__, str(e)[:100])
    finally:
        time.time, time.monotonic, time.perf_counter = real_clocks
        try:
            c.socket._s.close()
        except Exception:
            pass
    th.join(timeout=3)
    if case.get("slow") and vclock["off"] > 0:
        ctx.hit("e2e_quiet_spells_between_reads")
    if rec.get("empty_parts"):
        ctx.hit("e2e_empty_parts_in_mid_stream", rec["empty_parts"])
    ctx.ev()
    ctx.hit("e2e_sessions")
    msgs_exp = [m for _, m in exp]
    data_sizes = []
    for s in rec["sizes"]:
        data_sizes.append(s[-1] if isinstance(s, list) else s)
    info = {"kind": kind, "stream": stream.hex(), "recv_sizes": rec["sizes"][:60], "pieces": [len(p) for p in pieces]}
    if err:
        ctx.violation("e2e-run-raises", error=err, **info)
        return
    em = rec["emitted"]
    ends_due = [e for e, _ in exp]
    for (got_bytes, n_out) in rec.get("checkpoints", []):
        due = bisect.bisect_right(ends_due, got_bytes - extra)
        if n_out < min(due, len(msgs_exp)):
            ctx.violation("e2e-frame-withheld-although-complete-and-followed", delivered=got_bytes, handed_on=n_out, due=due, **info)
            return
    ctx.hit("e2e_checkpoints", len(rec.get("checkpoints", [])))
    kept = [m[0] for b in rec.get("batches", []) for m in b]
    if kept != em:
        ctx.violation("e2e-batch-handed-over-is-modified-by-a-later-read", as_handed_over=em[:6], read_back_later=kept[:6], **info)
        return
    if em != msgs_exp[:len(em)]:
        k = next((j for j in range(min(len(em), len(msgs_exp))) if em[j] != msgs_exp[j]), min(len(em), len(msgs_exp)))
        ctx.violation("e2e-frames-corrupted-lost-or-reordered", index=k, emitted=em[k] if k < len(em) else None,
                      expected=msgs_exp[k] if k < len(msgs_exp) else None, **info)
        return
    if sentinel not in em:
        # bytes may not all have arrived before the timeout -> inconclusive session, unless everything was delivered
        total_data = sum(x for x in data_sizes)
        if total_data >= len(stream):
            ctx.violation("e2e-frames-lost", emitted=len(em), expected=len(msgs_exp), **info)
        else:
            ctx.hit("e2e_inconclusive_session")
        return
    # observed segmentation: does any recv boundary fall inside a frame?
    allends = set(ends)
    acc = 0
    mid = False
    for x in data_sizes[:-1]:
        acc += x
        if x and acc not in allends and acc < len(stream):
            mid = True
    if case.get("burst") and any(x >= 8000 for x in data_sizes):
        ctx.hit("e2e_read_of_8k_or_more")
    if mid:
        ctx.hit("e2e_midframe_boundary")
        if rec.get("injected"):
            ctx.hit("e2e_receive_timeouts_between_chunks")
    ctx.nontrivial(("e2e", kind, stream.hex(), tuple(map(str, rec["sizes"]))))
    ctx.sample({"e2e": kind, "observed_recv_sizes": rec["sizes"][:24], "sent_pieces": [len(p) for p in pieces][:24], "frames": len(exp)})


def m_threads2(ctx, case):
    """two clients of the same format, each fed its own stream by its own thread at the same time (two receivers in one program,
    one read loop per thread): each hands on exactly its own frames - a scratch buffer that lives on the class, not on the
    object, mixes the two streams only when the parsers really overlap"""
    import sys
    import threading
    kind = case["kind"]
    jobs = []
    for specs in case["specs2"]:
        stream, ends, exp, extra = mk_stream(kind, specs)
        rr = random.Random(len(stream) * 7 + ctx.seed)
        n = len(stream)
        jobs.append((stream, exp, extra, [sorted(set(rr.randrange(1, n) for _ in range(rr.choice((6, 12, 30))))) for _ in range(case["rounds"])]))
    res = [True, True]

    def work(t):
        stream, exp, extra, cutsets = jobs[t]
        for cuts in cutsets:
            if not run_seg(ctx, kind, None, stream, cuts, exp, extra, {"kind": kind, "stream": stream.hex(), "two_threads": True}):
                res[t] = False
                return
    old = sys.getswitchinterval()
    sys.setswitchinterval(1e-6)
    try:
        ths = [threading.Thread(target=work, args=(t,), daemon=True) for t in (0, 1)]
        for th in ths:
            th.start()
        for th in ths:
            th.join(timeout=120)
    finally:
        sys.setswitchinterval(old)
    ctx.hit("two_clients_parsing_in_two_threads")
    ctx.nontrivial(("th2", kind, jobs[0][0].hex()[:64]))


MONITORS = {"threads2": m_threads2, "stream": m_stream, "netsource": m_netsource, "e2e": m_e2e}


# ------------------------------------------------------------------ generators
def rand_msg(rng, long_):
    if long_:
        df = rng.choice((17, 17, 18, 20, 21, 16))
        n = 112
    else:
        df = rng.choice((0, 4, 5, 11))
        n = 56
    x = bits.with_pi((df << (n - 29)) | rng.fill(n - 29), n, rng.fill(24))
    if rng.random() < 0.15:
        # "payload bytes free": a frame whose TAIL (payload and parity field, from some byte on) is all 00 or all FF - an empty
        # Comm-B reply addressed to the aircraft whose address equals the parity, a padded record; the first byte keeps the format
        kbits = 8 * rng.randrange(1, n // 8)
        x = (x >> kbits) << kbits
        if rng.random() < 0.4:
            x |= (1 << kbits) - 1
    return x, n


def beast_specs(rng, nframes, force_1a=True):
    specs = []
    for k in range(nframes):
        c = rng.random()
        if c < 0.12:
            specs.append({"t": 0x31, "ts": rng.randbytes(6).hex(), "sig": rng.randrange(0, 256), "msg": rng.randbytes(2).hex(), "emit": False})
            continue
        if c < 0.2:
            specs.append({"t": 0x34, "ts": rng.randbytes(6).hex(), "sig": rng.randrange(1, 256), "msg": rng.randbytes(rng.choice((2, 7))).hex(), "emit": False})
            continue
        if c < 0.23:
            # frame types beyond the four of the classic Beast: Radarcape position reports ("5"), readsb's receiver-id and
            # timestamp frames (0xE3, 0xE4), anything a newer firmware adds - not Mode S, skipped, and no business of the
            # Mode S frame in front of them
            tb = rng.choice((0x35, 0x35, 0xE3, 0xE4, 0x30, 0x36, 0x41, 0x00, 0xFF, rng.choice([v for v in range(256) if v not in (0x1A, 0x31, 0x32, 0x33)])))
            specs.append({"t": tb, "ts": rng.randbytes(6).hex(), "sig": rng.randrange(256), "msg": rng.randbytes(rng.choice((2, 7, 14, 21))).hex(), "emit": False})
            continue
        if c < 0.27:
            # length/format mismatch: a long-format DF inside a short Beast frame or a short-format DF inside a long one
            # is not a complete Mode S message and must be skipped by the documented admission rule (never emitted)
            long_ = rng.random() < 0.5
            x, n = rand_msg(rng, not long_)
            raw = x.to_bytes(n // 8, "big")
            raw = (raw + rng.randbytes(7)) if long_ else raw[:7]
            specs.append({"t": 0x33 if long_ else 0x32, "ts": rng.randbytes(6).hex(), "sig": rng.randrange(256), "msg": raw.hex().upper(),
                          "emit": False})
            continue
        long_ = rng.random() < 0.6
        x, n = rand_msg(rng, long_)
        b = bytearray(x.to_bytes(n // 8, "big"))
        ts = bytearray(rng.randbytes(6))
        sig = rng.choice((0, 255, 1, 254, rng.randrange(256), rng.randrange(256)))     # the signal level is free: silent, saturated, any
        if force_1a:
            where = rng.choice(("ts", "sig", "msg", "last", "msg2", "none", "run", "heavy"))
            if where == "heavy":
                # worst-case wire length: most of timestamp, signal level and message bytes need escaping (up to 2+12+2+27 bytes)
                ts = bytearray(b"\x1a" * 6) if rng.random() < 0.7 else ts
                sig = 0x1A if rng.random() < 0.7 else sig
                keep = rng.choice((0, 0, 1, 2, 4))
                for j in range(1, len(b)):
                    b[j] = 0x1A
                for _ in range(keep):
                    b[rng.randrange(1, len(b))] = rng.randrange(256)
                if long_ and rng.random() < 0.35:
                    # the longest frame the format can carry: EVERY escapable byte (6 + 1 + 14) is 0x1A - 2 + 2 * 21 = 44 bytes on
                    # the wire (a length bound that counts the signal level once says 43); its first byte makes it "DF 3", which
                    # the admission rule lets through
                    ts, sig = bytearray(b"\x1a" * 6), 0x1A
                    for j in range(len(b)):
                        b[j] = 0x1A
            elif where == "ts":
                ts[rng.randrange(6)] = 0x1A
            elif where == "sig":
                sig = 0x1A
            elif where == "msg":
                b[rng.randrange(1, len(b))] = 0x1A
            elif where == "last":
                b[-1] = 0x1A
            elif where == "msg2":
                j = rng.randrange(1, len(b) - 1)
                b[j] = b[j + 1] = 0x1A
            elif where == "run":
                j = rng.randrange(1, len(b) - 2)
                b[j] = b[j + 1] = b[j + 2] = 0x1A
                ts[5] = 0x1A
        # keep DF bits (first byte) intact so that admission stays as planned
        specs.append({"t": 0x33 if long_ else 0x32, "ts": bytes(ts).hex(), "sig": sig, "msg": bytes(b).hex().upper()})
    # sentinel frame (valid long DF17) closes the stream; it is itself never required
    x, n = rand_msg(rng, True)
    specs.append({"t": 0x33, "ts": "000000000001", "sig": 100, "msg": "%028X" % x})
    specs.append({"t": 0x34, "ts": "000000000002", "sig": 1, "msg": "0000", "emit": False})
    return specs


def raw_specs(rng, nframes):
    specs = []
    for k in range(nframes):
        x, n = rand_msg(rng, rng.random() < 0.6)
        specs.append({"msg": "%0*X" % (n // 4, x), "lower": rng.random() < 0.4, "sep": rng.choice(("\n", "\r\n", ""))})
    x, n = rand_msg(rng, True)
    specs.append({"msg": "%028X" % x, "sep": "\n"})
    return specs


def sky_specs(rng, nframes):
    specs = []
    for k in range(nframes + 2):
        long_ = rng.random() < 0.6
        x, n = rand_msg(rng, long_)
        b = bytearray(x.to_bytes(n // 8, "big"))
        if rng.random() < 0.3:
            b[rng.randrange(1, len(b))] = 0x24
        # skysense distinguishes long/short by the first payload bit
        if long_:
            b[0] |= 0x80
        else:
            b[0] &= 0x7F
        ts = bytearray(rng.randbytes(6))
        if rng.random() < 0.3:
            ts[rng.randrange(6)] = 0x24
        specs.append({"msg": bytes(b).hex().upper(), "ts": bytes(ts).hex(), "rs": rng.randbytes(3).hex()})
    return specs


def cases(ctx):
    rng = ctx.rng
    quick = ctx.tier == "quick"
    i = 0
    import random as _r
    nstreams = 6 if quick else 60
    for fmt, mk in (("beast", beast_specs), ("raw", raw_specs), ("sky", sky_specs)):
        if ctx.mine(i):
            yield "threads2", {"kind": fmt, "specs2": [mk(rng, 12), mk(rng, 12)], "rounds": 40 if quick else 400}
        i += 1
    # a long run of Beast frames that are NOT Mode S messages (Mode A/C replies, status frames: types '1' and '4') between two
    # Mode S frames, cut everywhere: the feed is in sync all along - a "lost alignment after N rejected frames" heuristic is not
    for fmt in ("beast", "beast_rssi"):
        if ctx.mine(i):
            specs = beast_specs(rng, 2, force_1a=False)[:2]
            run = []
            for _ in range(rng.choice((64, 65, 70, 90))):
                run.append({"t": rng.choice((0x31, 0x34)), "ts": rng.randbytes(6).hex(), "sig": rng.randrange(1, 256),
                            "msg": rng.randbytes(2).hex(), "emit": False})
            specs = specs[:1] + run + beast_specs(rng, 3, force_1a=False)
            yield "stream", {"kind": fmt, "specs": specs, "mode": "single"}
            yield "stream", {"kind": fmt, "specs": specs, "mode": "random", "n": 20}
            ctx.hit("beast_run_of_64_or_more_non_mode_s_frames")
        i += 1
    for fmt, mk in (("beast", beast_specs), ("beast_rssi", beast_specs), ("raw", raw_specs), ("sky", sky_specs)):
        for sidx in range(nstreams if fmt != "beast_rssi" else max(1, nstreams // 3)):
            srng = core.Rng((ctx.seed * 1000 + sidx) * 7 + len(fmt))   # identical stream on every shard
            specs = mk(srng, srng.randint(3, 5) if quick else srng.randint(4, 9))
            stream = mk_stream("beast" if fmt == "beast_rssi" else fmt, specs)[0]
            n = len(stream)
            if ctx.mine(i):
                yield "stream", {"kind": fmt, "specs": specs, "mode": "single"}
            i += 1
            if ctx.mine(i):
                yield "stream", {"kind": fmt, "specs": specs, "mode": "random", "n": 60 if quick else 400}
            i += 1
            step = 6
            for lo in range(1, n, step):
                if ctx.mine(i):
                    yield "stream", {"kind": fmt, "specs": specs, "mode": "double", "range": [lo, lo + step]}
                i += 1
    # more streams with single + random cuts only
    for k in range(ctx.share(160 if quick else 6000)):
        fmt, mk = rng.choice((("beast", beast_specs), ("beast", beast_specs), ("beast_rssi", beast_specs), ("raw", raw_specs), ("sky", sky_specs)))
        specs = mk(rng, rng.randint(3, 12))
        yield "stream", {"kind": fmt, "specs": specs, "mode": "single"}
        yield "stream", {"kind": fmt, "specs": specs, "mode": "random", "n": 40}
    # NetSource
    for k in range(ctx.share(300 if quick else 2000)):
        batches = []
        t = 1000.0
        for _ in range(rng.randint(3, 20)):
            b = []
            for _ in range(rng.randint(0, 5)):
                long_ = rng.random() < 0.8
                if long_:
                    df = rng.choice((17, 18, 20, 21, 16, 19, 24, 17, 20))
                    x = bits.with_pi((df << 83) | rng.fill(83), 112, rng.fill(24))
                    m = "%028X" % x
                else:
                    x, n = rand_msg(rng, False)
                    m = "%014X" % x
                t += rng.choice((0.0, 0.0, rng.uniform(0, 0.5)))     # receivers with a coarse clock stamp several frames alike
                # an AVR feed may spell its hex digits in lower case ('*a0...;' - the raw reader hands them on as received)
                if k % 3 == 1:
                    m = m.lower()
                elif k % 3 == 2:
                    m = "".join(ch.lower() if rng.random() < 0.5 else ch for ch in m)
                b.append([m, t])
            batches.append(b)
        if k % 3:
            ctx.hit("netsource_lower_or_mixed_case_frames")
        yield "netsource", {"batches": batches}
    # a feed with (almost) no ADS-B for a long time: thousands of Comm-B replies pile up before the next hand-over and
    # every one of them still has to reach the decoder
    for k in range(ctx.share(16 if quick else 200)):
        batches, t = [], 1000.0
        total = rng.choice((1100, 1500, 2500, 4000))
        early_adsb = rng.random() < 0.5
        n_done = 0
        while n_done < total:
            b = []
            for _ in range(min(rng.choice((1, 7, 60, 250, 900)), total - n_done)):
                x = bits.with_pi((rng.choice((20, 21)) << 83) | rng.fill(83), 112, rng.fill(24))
                t += rng.choice((0.0, rng.uniform(0, 0.01)))
                b.append(["%028X" % x, t])
                n_done += 1
            if early_adsb and not batches:
                x, n_ = rand_msg(rng, True)
                b.insert(rng.randrange(len(b) + 1), ["%028X" % bits.es_frame(17, 5, rng.fill(24), rng.fill(56)), t])
            batches.append(b)
        batches.append([["%028X" % bits.es_frame(17, 5, rng.fill(24), rng.fill(56)), t + 1], ["%028X" % bits.es_frame(18, 0, rng.fill(24), rng.fill(56)), t + 2]])
        yield "netsource", {"batches": batches, "flood": total}
    # end-to-end sessions with bursts: hundreds of frames written to the socket at once, so that single reads are as large
    # as the transport delivers them (8 KiB for a zmq STREAM socket) and arrive on top of a carried-over partial frame
    for k in range(ctx.share(4 if quick else 64)):
        fmt, mk = (("beast", beast_specs), ("raw", raw_specs), ("sky", sky_specs))[(k + ctx.shard) % 3]
        specs = mk(rng, rng.choice((700, 900)))
        stream, ends_ = mk_stream(fmt, specs)[:2]
        n = len(stream)
        cuts = sorted(set([rng.randrange(50, 200), rng.randrange(9000, min(n - 1, 12000))]))
        yield "e2e", {"kind": fmt, "specs": specs, "cuts": cuts, "delay": 0.05, "again_every": 0, "burst": 1}
    # end-to-end sessions
    for k in range(ctx.share(12 if quick else 400)):
        fmt, mk = (("beast", beast_specs), ("raw", raw_specs), ("sky", sky_specs))[(k + ctx.shard) % 3]
        specs = mk(rng, rng.randint(4, 10))
        stream, ends_ = mk_stream(fmt, specs)[:2]
        n = len(stream)
        cuts = set(rng.randrange(1, n) for _ in range(rng.choice((2, 4, 8))))
        # reads that end exactly on / right after the first byte of the next frame (for Beast: the <esc> opening it), with
        # the rest of that frame arriving later: a frame is due as soon as it is complete and followed by a frame start
        for e in rng.sample(list(ends_), min(len(ends_), rng.choice((1, 2, 3)))):
            if 0 < e + 1 < n:
                cuts.add(e + 1)
                if e + 1 + 3 < n and rng.random() < 0.7:
                    cuts.add(e + 1 + rng.randint(1, 3))
        cuts = sorted(cuts)
        yield "e2e", {"kind": fmt, "specs": specs, "cuts": cuts, "delay": rng.choice((0.02, 0.05)),
                      "again_every": rng.choice((0, 2, 2, 3)), "slow": (k + ctx.shard) % 2 == 1, "empties": (k + ctx.shard) % 3 == 0}
