"""C11 - Comm-B register fields decode to the encoded engineering values."""
from __future__ import annotations

import warnings

from ..probe import call
from ..ref import bits
from ..ref import commb as rc

LEVEL = "exploration"
TECHNIQUE = 'runtime monitoring: declarative Doc 9871 field table as oracle, exhaustive raw values x status x sign, single-bit non-interference flips'
LEVEL_TEXT = 'Every raw value of every tabulated field is executed on every run; other MB/header/parity bits sampled and flipped one at a time.'
EXHAUSTIVE = True
LEVEL_RULE = (
    "Every field decoder of BDS 1,0 1,7 4,0 4,4 4,5 5,0 5,3 6,0 called on DF20/21 replies built from a declarative Doc 9871 "
    "field table: all raw values x status x sign x random fillings of the other MB bits, header and parity; single-bit "
    "flips of every bit outside the field (non-interference); wind44 / temp44 pairs, cap17 bit->register list, ovc10; "
    "identity of the pyModeS.commb re-exports. Distinct = distinct message hashes."
)
EXHAUSTIVE_SUBDOMAINS = ["every raw value x status x sign of the 29 tabulated fields", "wind44 speed 0..511 and direction 0..511",
                         "temp44 sign x 0..1023", "cap17 each of the 24 capability bits alone and random subsets"]
ASSUMPTIONS = ["field layouts transcribed from ICAO Doc 9871 (Appendix A tables) into pmv/ref/commb.py",
               "float results compared within 1e-9"]
REQUIRED = ["field_" + n for n in rc.FIELDS] + ["cap17_redecode_after_caller_edit", "register_shaped_backgrounds", "foreign_register_shaped_backgrounds", "background_still_shaped_like_bds20", "status0", "status1", "sign1", "wind44", "temp44", "cap17", "ovc10", "identity",
                                                "noninterference", "alias"]


def mk(ctx, mb, df=None):
    rng = ctx.rng
    # "random content of the header": mostly a Comm-B reply (DF20/21), one time in six any five format bits - the field
    # decoders read the MB bits of the 28-digit string they are given and nothing in front of them
    f = bits.commb_frame(df or (rng.choice((20, 21)) if rng.random() < 0.84 else rng.randrange(32)), rng.fill(27), mb, rng.fill(24))
    hx = bits.anypi(rng, "%028X" % f)   # header / AP of the previous reply now and then: the field decoders read MB only
    return (hx.lower() if rng.random() < 0.1 else hx), int(hx, 16)


def fn_of(name):
    import importlib
    mod = rc.FIELDS[name][0] if name in rc.FIELDS else {"wind44": "bds44", "temp44": "bds44", "cap17": "bds17", "ovc10": "bds10"}[name]
    m = importlib.import_module("pyModeS.decoder.bds." + mod)
    return getattr(m, name)


def same(obs, exp):
    if exp is None:
        return obs is None
    if obs is None or isinstance(obs, bool):
        return False
    return abs(obs - exp) <= 1e-9


def m_field(ctx, case):
    name = case["name"]
    fn = fn_of(name)
    rng = ctx.rng
    own = rc.own_bits(name)
    mod, sb, gb, msb, lsb, k, off, wrap = rc.FIELDS[name]
    for raw in range(case["lo"], case["hi"]):
        for status in ((0, 1) if sb is not None else (1,)):
            for sign in ((0, 1) if gb is not None else (0,)):
                for rep in range(case["fill"]):
                    mb = rc.place(rng.fill(56), name, status, sign, raw)
                    hx, f = mk(ctx, mb)
                    exp = rc.expected(name, status, sign, raw)
                    r = call(fn, hx)
                    ctx.ev()
                    if r[0] != "ok" or not same(r[1], exp):
                        key = "field-wrong-" + name
                        if name == "vr53" and status == 1 and raw in (0, 255):
                            key = "vr53-all-zero-or-one-forced-to-0"
                        ctx.violation(key, frame=hx, status=status, sign=sign, raw=raw, expected=exp, observed=r[1:])
                    ctx.hit("status%d" % status)
                    if sign:
                        ctx.hit("sign1")
                    ctx.nontrivial(("f", name, hx))
        # register-shaped backgrounds: every OTHER field of the same register "available" (status set) and zero / all ones /
        # a mix, under every flight-status value of the header - the field's answer is its own business
        if raw % case["flip_every"] == 0:
            sib = [n_ for n_, v_ in rc.FIELDS.items() if v_[0] == mod and n_ != name]
            for flavour in ("zero", "ones", "mixed", "unavailable"):
                bg = 0
                for n_ in sib:
                    _m, sb_, gb_, msb_, lsb_ = rc.FIELDS[n_][:5]
                    w_ = lsb_ - msb_ + 1
                    val = {"zero": 0, "ones": (1 << w_) - 1, "mixed": rng.getrandbits(w_), "unavailable": 0}[flavour]
                    bg = rc.place(bg, n_, 0 if flavour == "unavailable" else 1, 1 if flavour == "ones" else 0, val)
                for st_ in ((0, 1) if sb is not None else (1,)):
                    sg_ = rng.randrange(2) if gb is not None else 0
                    mb = rc.place(bg, name, st_, sg_, raw)
                    exp = rc.expected(name, st_, sg_, raw)
                    for fs_ in range(8):
                        hdr = (fs_ << 24) | rng.choice((0, rng.getrandbits(24)))
                        hx = "%028X" % bits.commb_frame(20 + (fs_ & 1), hdr, mb, rng.choice((0, rng.getrandbits(24))))
                        r = call(fn, hx)
                        ctx.ev()
                        if r[0] != "ok" or not same(r[1], exp):
                            ctx.violation("field-wrong-on-register-shaped-background-" + name, frame=hx, background=flavour, fs=fs_,
                                          status=st_, raw=raw, expected=exp, observed=r[1:])
            ctx.hit("register_shaped_backgrounds")
        # backgrounds shaped like a valid register of ANOTHER type (an identification, a capability report, a track-and-turn
        # report ...): a decoder that first asks "does this payload look like something else?" answers None there
        if raw % case["flip_every"] == 0:
            from . import C12 as p12
            legal = set(p12.LEGAL6)
            for bname, mkbg in (("10", p12.b10), ("17", p12.b17), ("20", p12.b20), ("30", p12.b30), ("40", p12.b40), ("44", p12.b44),
                                ("45", p12.b45), ("50", p12.b50), ("60", lambda r_: p12.b60(r_, 21)[0])):
                if mod.endswith(bname):
                    continue
                for st_ in ((0, 1) if sb is not None else (1,)):
                    sg_ = rng.randrange(2) if gb is not None else 0
                    for _try in range(40):
                        mb = rc.place(mkbg(rng), name, st_, sg_, raw)
                        # keep the foreign shape where the field under test allows it (BDS 2,0: still eight legal characters)
                        if bname != "20" or (mb >> 48 == 0x20 and all(((mb >> (42 - 6 * q_)) & 63) in legal for q_ in range(8))):
                            ctx.hit("background_still_shaped_like_bds" + bname)
                            break
                    exp = rc.expected(name, st_, sg_, raw)
                    hx = "%028X" % bits.commb_frame(rng.choice((20, 21)), rng.getrandbits(27), mb, rng.choice((0, rng.getrandbits(24))))
                    r = call(fn, hx)
                    ctx.ev()
                    if r[0] != "ok" or not same(r[1], exp):
                        ctx.violation("field-wrong-on-background-shaped-like-another-register-" + name, frame=hx, background="BDS" + bname,
                                      status=st_, raw=raw, expected=exp, observed=r[1:])
            ctx.hit("foreign_register_shaped_backgrounds")
        # non-interference on this raw value: flip a few bits outside the field (MB, header, parity)
        if raw % case["flip_every"] == 0:
            mb = rc.place(rng.fill(56), name, 1, rng.randrange(2), raw)
            hx, f = mk(ctx, mb)
            base = call(fn, hx)
            outside_mb = [b for b in range(1, 57) if b not in own]
            flips = [32 + b for b in outside_mb] + list(range(1, 33)) + list(range(89, 113))
            for fb in (flips if case.get("all_flips") else rng.sample(flips, 12)):
                r = call(fn, "%028X" % (f ^ (1 << (112 - fb))))
                ctx.ev()
                if r != base:
                    ctx.violation("field-depends-on-outside-bit-" + name, frame=hx, flipped_frame_bit=fb, a=base, b=r)
            ctx.hit("noninterference")
    ctx.hit("field_" + name)
    if ctx.rng.random() < 0.05:
        ctx.sample({"field": name, "frame": hx, "raw": raw, "expected_with_status1": rc.expected(name, 1, 0, raw)})


def m_special(ctx, case):
    rng = ctx.rng
    kind = case["kind"]
    if kind == "wind44":
        fn = fn_of("wind44")
        for v in range(case["lo"], case["hi"]):
            for status in (0, 1):
                mb = rng.fill(56)
                spd, dr = v, (v * 7 + 3) % 512
                mb = rc.put(rc.put(rc.put(mb, 5, 5, status), 6, 14, spd), 15, 23, dr)
                hx, f = mk(ctx, mb)
                exp = (spd, dr * 180.0 / 256.0) if status else (None, None)
                r = call(fn, hx)
                ctx.ev()
                ok = r[0] == "ok" and isinstance(r[1], tuple) and len(r[1]) == 2 and same(r[1][0], exp[0]) and same(r[1][1], exp[1])
                if not ok:
                    ctx.violation("field-wrong-wind44", frame=hx, expected=exp, observed=r[1:])
                ctx.nontrivial(("w44", hx))
        ctx.hit("wind44")
    elif kind == "temp44":
        fn = fn_of("temp44")
        for v in range(case["lo"], case["hi"]):
            for sign in (0, 1):
                mb = rc.put(rc.put(rng.fill(56), 24, 24, sign), 25, 34, v)
                hx, f = mk(ctx, mb)
                val = v - 1024 if sign else v
                r = call(fn, hx)
                ctx.ev()
                ok = r[0] == "ok" and isinstance(r[1], tuple) and len(r[1]) == 2 and same(r[1][0], val * 0.25)
                if not ok:
                    ctx.violation("field-wrong-temp44", frame=hx, expected=val * 0.25, observed=r[1:])
                ctx.nontrivial(("t44", hx))
        ctx.hit("temp44")
    elif kind == "cap17":
        fn = fn_of("cap17")
        sets = [1 << (23 - b) for b in range(24)] + [0, (1 << 24) - 1] + [rng.fill(24) for _ in range(case["n"])]
        for s in sets:
            mb = (s << 32) | rng.fill(32)
            hx, f = mk(ctx, mb)
            exp = ["BDS" + rc.CAP17[b] for b in range(24) if (s >> (23 - b)) & 1]
            r = call(fn, hx)
            ctx.ev()
            if r[0] != "ok" or list(r[1]) != exp:
                ctx.violation("field-wrong-cap17", frame=hx, expected=exp, observed=r[1:])
            elif isinstance(r[1], list):
                # the result belongs to the caller: editing it must not change what the next decode of the same frame returns
                r[1].clear()
                r[1].append("BDS99")
                r2 = call(fn, hx)
                ctx.ev()
                ctx.hit("cap17_redecode_after_caller_edit")
                if r2[0] != "ok" or list(r2[1]) != exp:
                    ctx.violation("field-wrong-cap17-after-caller-edited-earlier-result", frame=hx, expected=exp, observed=r2[1:])
            ctx.nontrivial(("c17", hx))
        ctx.hit("cap17")
    elif kind == "ovc10":
        fn = fn_of("ovc10")
        for _ in range(case["n"]):
            mb = rng.fill(56)
            hx, f = mk(ctx, mb)
            r = call(fn, hx)
            ctx.ev()
            if r[1:] != ((mb >> (56 - 15)) & 1,):
                ctx.violation("field-wrong-ovc10", frame=hx, observed=r[1:])
            ctx.nontrivial(("o10", hx))
        ctx.hit("ovc10")
    elif kind == "identity":
        import importlib
        from pyModeS import commb
        for nm in commb.__all__:
            modn = "bds" + nm[-2:] if nm[-2:].isdigit() else "bds" + "".join(ch for ch in nm if ch.isdigit())[:2]
            if nm in ("alt40mcp", "alt40fms"):
                modn = "bds40"
            try:
                m = importlib.import_module("pyModeS.decoder.bds." + modn)
            except ImportError:
                continue  # an export this harness does not know: nothing is claimed about it
            ctx.ev()
            if getattr(commb, nm, None) is not getattr(m, nm, "MISSING"):
                ctx.violation("commb-export-is-not-the-decoder", name=nm)
        ctx.hit("identity")
        ctx.nontrivial(("identity",))
        # deprecated aliases give the same values
        with warnings.catch_warnings():
            warnings.simplefilter("ignore")
            for alias, target in rc.ALIASES.items():
                for _ in range(50):
                    mb = rng.fill(56)
                    hx, f = mk(ctx, mb)
                    a, b = call(getattr(commb, alias), hx), call(getattr(commb, target), hx)
                    ctx.ev(2)
                    if a != b:
                        ctx.violation("alias-differs", alias=alias, frame=hx, a=a, b=b)
        ctx.hit("alias")


MONITORS = {"field": m_field, "special": m_special}


def cases(ctx):
    quick = ctx.tier == "quick"
    i = 0
    for name, (mod, sb, gb, msb, lsb, k, off, wrap) in rc.FIELDS.items():
        n = 1 << (lsb - msb + 1)
        step = 128
        for lo in range(0, n, step):
            if ctx.mine(i):
                yield "field", {"name": name, "lo": lo, "hi": min(n, lo + step), "fill": 4 if quick else 8,
                                "flip_every": 8 if quick else 4, "all_flips": not quick and lo == 0}
            i += 1
    for lo in range(0, 512, 128):
        if ctx.mine(i):
            yield "special", {"kind": "wind44", "lo": lo, "hi": lo + 128}
        i += 1
    for lo in range(0, 1024, 128):
        if ctx.mine(i):
            yield "special", {"kind": "temp44", "lo": lo, "hi": lo + 128}
        i += 1
    for kind, n in (("cap17", 300 if quick else 5000), ("ovc10", 300 if quick else 5000), ("identity", 1)):
        if ctx.mine(i):
            yield "special", {"kind": kind, "n": n}
        i += 1
