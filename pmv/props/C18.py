"""C18 - uplink interrogation decoding."""
from __future__ import annotations

from ..probe import call
from ..ref import bits

LEVEL = "exploration"
BRANCH_TARGETS = ['pyModeS.decoder.uplink:uplink_icao', 'pyModeS.decoder.uplink:bds', 'pyModeS.decoder.uplink:ic', 'pyModeS.decoder.uplink:lockout', 'pyModeS.decoder.uplink:uplink_fields', 'pyModeS.decoder.uplink:pr']
TECHNIQUE = 'runtime monitoring: Annex 10 uplink frame builder as oracle, exhaustive field product'
LEVEL_TEXT = 'UF x RR x DI x RRS and UF11 PR x CL x IC enumerated completely on every run; addresses and remaining bits sampled.'
EXHAUSTIVE = True
LEVEL_RULE = (
    "decoder.uplink.* called on interrogations built forward: AP = parity(data) XOR top 24 bits of G(x)*A(x) for sampled and "
    "structured addresses, both lengths; UF(32) x RR(32) x DI(8) x RRS(16) exhaustive with IIS/SIS, LOS/LSS, PC and the "
    "remaining bits random, plus the IIS(16)/SIS(64) x LOS/LSS products and UF11 PR(16) x CL(8) x IC(16) exhaustive. Oracle: "
    "encoded field values; uplink_fields() equals the single-field functions (absent markers None/''/False equal). "
    "Distinct = distinct frame hashes."
)
EXHAUSTIVE_SUBDOMAINS = ["UF x RR x DI x RRS (131072 cells)", "UF11: PR x CL x IC (2048 cells)",
                         "DI in {0,1,7} x IIS x LOS and DI=3 x SIS x LSS for UF 4/5/20/21"]
ASSUMPTIONS = ["for DI values other than 0,1,3,7 only UF, BDS1 and the agreement of uplink_fields() with the single-field "
               "functions are judged (the SD sub-fields for those DI codes are not asserted from memory)"]
REQUIRED = ["sibling_frames_of_the_other_length_first", "fields_redecode_after_caller_edit", "data_is_multiple_of_generator", "running_remainder_long_run_of_ones", "addr56", "addr112", "uf11", "rollcall", "other_uf", "di0", "di1", "di3", "di7", "di_other", "rr_low", "rr_high",
            "fields_agree"]


def absent(v):
    return v is None or v == "" or v is False


def m_addr(ctx, case):
    from pyModeS.decoder import uplink
    n, addr = case["n"], case["addr"]
    data = int(case["data"], 16) & ((1 << (n - 24)) - 1)
    f = bits.uplink(data, n, addr)
    hx = "%0*X" % (n // 4, f)
    if case.get("lower"):
        hx = hx.lower()
    r = call(uplink.uplink_icao, hx)
    ctx.ev()
    if r != ("ok", "%06X" % addr):
        ctx.violation("uplink-address-wrong", frame=hx, expected="%06X" % addr, observed=r[1:])
    ctx.hit("addr%d" % n)
    if case.get("genmult"):
        ctx.hit("data_is_multiple_of_generator")
    if case.get("runrem"):
        ctx.hit("running_remainder_long_run_of_ones")
    ctx.nontrivial(("ua", hx))
    if ctx.rng.random() < 0.0005:
        ctx.sample({"interrogation": hx, "address": "%06X" % addr})


def expect(ufv, pc, rr, di, sd, pr, icf, cl):
    """expected single-field results; None entries in 'judge' mean not judged"""
    e = {"uf": min(ufv, 24)}
    roll = ufv in (4, 5, 20, 21)
    if roll:
        b2, b3 = sd >> 8, sd & 0xFF
        if rr > 15:
            if di == 7:
                bds2 = b2 & 0xF
            elif di == 3:
                bds2 = ((b2 & 1) << 3) | (b3 >> 5)
            else:
                bds2 = 0
            e["bds"] = "%X%X" % (rr - 16, bds2)
        else:
            e["bds"] = None
        e["pr"] = None
        if di in (0, 1, 7):
            e["ic"] = "II%d" % (b2 >> 4)
        elif di == 3:
            e["ic"] = "SI%d" % (b2 >> 2)
        if di in (1, 7):
            e["lockout"] = bool((b3 >> 6) & 1)
        elif di == 3:
            e["lockout"] = bool((b2 >> 1) & 1)
        elif di == 0:
            e["lockout"] = False
    elif ufv == 11:
        e["bds"] = None
        e["pr"] = pr
        e["ic"] = ("II%d" % icf) if cl == 0 else ("SI%d" % (icf + 16 * (cl - 1))) if cl <= 4 else "ABSENT"
        e["lockout"] = None
    else:
        e["bds"] = None
        e["pr"] = None
        e["ic"] = None
        e["lockout"] = None
    return e


def m_fields(ctx, case):
    from pyModeS.decoder import uplink
    rng = ctx.rng
    for sub in case["frames"]:
        ufv, n = sub["uf"], sub["n"]
        if ufv == 11:
            pr, icf, cl = sub["pr"], sub["ic"], sub["cl"]
            hdr = (ufv << 11) | (pr << 7) | (icf << 3) | cl  # 16 bits
            rr = di = sd = pc = 0
        else:
            pc, rr, di, sd = sub["pc"], sub["rr"], sub["di"], sub["sd"]
            hdr = (ufv << 11) | (pc << 8) | (rr << 3) | di
            pr = icf = cl = 0
        rest = n - 24 - 32
        sdv = sd if ufv != 11 else rng.fill(16)
        data = (hdr << 16 | sdv) << rest | (rng.fill(rest) if rest else 0)
        f = bits.uplink(data, n, sub["addr"])
        hx = "%0*X" % (n // 4, f)
        if rng.random() < 0.1:
            hx = hx.lower()
        e = expect(ufv, pc, rr, di, sdv, pr, icf, cl)
        if rng.random() < 0.15:
            # just before: frames of the OTHER length that share digits with this one - zeros followed by this frame (the same
            # integer value), this frame followed by zeros, this frame twice, its first / last 14 digits; what they decode to is
            # not judged here, they only come first
            sibs = (["0" * 14 + hx, hx + "0" * 14, hx + hx] if n == 56 else [hx[:14], hx[14:]])
            for sib in sibs:
                for nm in ("bds", "pr", "ic", "lockout", "uplink_fields", "uf"):
                    call(getattr(uplink, nm), sib)
            ctx.hit("sibling_frames_of_the_other_length_first")
        got = {}
        for nm in ("uf", "bds", "pr", "ic", "lockout", "uplink_fields", "uplink_icao"):
            got[nm] = call(getattr(uplink, nm), hx)
            ctx.ev()
        for nm, r in got.items():
            if r[0] != "ok":
                ctx.violation("uplink-decoder-raises", frame=hx, api=nm, observed=r[1:])
        if any(r[0] != "ok" for r in got.values()):
            continue
        if got["uplink_icao"][1] != "%06X" % sub["addr"]:
            ctx.violation("uplink-address-wrong", frame=hx, expected="%06X" % sub["addr"], observed=got["uplink_icao"][1])
        for nm in ("uf", "bds", "pr", "ic", "lockout"):
            if nm not in e:
                continue
            obs = got[nm][1]
            exp = e[nm]
            if exp == "ABSENT":
                ok = absent(obs)
            elif nm == "lockout" and exp is not None:
                ok = obs is exp or obs == exp
            else:
                ok = obs == exp and type(obs) is type(exp)
            if not ok:
                ctx.violation("uplink-field-wrong-%s" % nm, frame=hx, uf=ufv, rr=rr, di=di, sd="%04X" % sdv, expected=exp, observed=obs)
        if ufv in (4, 5, 20, 21) and di not in (0, 1, 3, 7) and rr > 15:
            b = got["bds"][1]
            if not (isinstance(b, str) and len(b) == 2 and b[0] == "%X" % (rr - 16)):
                ctx.violation("uplink-field-wrong-bds", frame=hx, rr=rr, di=di, observed=b)
        # uplink_fields agrees with the single-field functions
        fl = got["uplink_fields"][1]
        if not isinstance(fl, dict):
            ctx.violation("uplink_fields-shape", frame=hx, observed=repr(fl)[:100])
            continue
        if ctx.rng.random() < 0.1:
            # the returned dict belongs to the caller: editing it must not change the next decode of the same frame
            snap = dict(fl)
            fl.clear()
            fl["UF"] = "edited"
            again = call(uplink.uplink_fields, hx)
            ctx.ev()
            ctx.hit("fields_redecode_after_caller_edit")
            if again[0] != "ok" or again[1] != snap:
                ctx.violation("uplink_fields-changes-after-caller-edited-earlier-result", frame=hx, first=snap, second=again[1:])
            fl = snap
        pairs = [("IC", got["ic"][1]), ("LOS", got["lockout"][1]), ("PR", got["pr"][1]), ("BDS", got["bds"][1])]
        for k, single in pairs:
            v = fl.get(k, "MISSING")
            same = (absent(v) and absent(single)) or (v == single)
            if not same:
                ctx.violation("uplink_fields-disagrees-%s" % k, frame=hx, fields=fl, single=single)
        if ufv in (4, 5, 20, 21):
            if fl.get("RR") != rr or fl.get("DI") != di:
                ctx.violation("uplink_fields-disagrees-RR-DI", frame=hx, fields=fl, rr=rr, di=di)
            ctx.hit("rollcall")
            ctx.hit("di%d" % di if di in (0, 1, 3, 7) else "di_other")
            ctx.hit("rr_high" if rr > 15 else "rr_low")
        elif ufv == 11:
            ctx.hit("uf11")
        else:
            ctx.hit("other_uf")
        ctx.hit("fields_agree")
        ctx.nontrivial(("uf", hx))


MONITORS = {"addr": m_addr, "fields": m_fields}


def cases(ctx):
    rng = ctx.rng
    quick = ctx.tier == "quick"
    i = 0
    structured = [0, 0xFFFFFF, 0xABCDEF] + [1 << b for b in range(24)] + [0xFFFFFF ^ (1 << b) for b in range(24)]
    # addresses whose OVERLAY (the modified address actually XOR-ed onto the parity) is a boundary pattern
    structured += [bits.uplink_overlay_inverse(o) for o in [0xFFFFFF, 0xFFFFFE, 0x7FFFFF, 0x800000, 0xAAAAAA, 0x555555] + [1 << b for b in range(24)]
                   + [0xFFFFFF ^ (1 << b) for b in range(24)]]
    for n in (56, 112):
        for a in structured:
            for rep in range(2):
                if ctx.mine(i):
                    yield "addr", {"n": n, "addr": a, "data": "%X" % (rng.fill(n - 24) if rep else 0), "lower": rep == 1}
                    if n == 56:      # the same address on an all-call (UF11) and on roll-call interrogations
                        for ufv in (11, 4, 5, 0):
                            yield "addr", {"n": n, "addr": a, "data": "%X" % ((ufv << 27) | rng.fill(27)), "lower": False}
                i += 1
    # data fields that are small multiples of the generator polynomial (the division register runs empty half-way), with
    # addresses whose AP overlay starts with zero bits
    G = bits.GEN
    for n in (56, 112):
        w = n - 24
        for sh in range(0, w - 24):
            for m_ in (1, 3, 5):
                d = 0
                for b_ in range(3):
                    if (m_ >> b_) & 1 and sh + b_ * 5 <= w - 25:
                        d ^= G << (sh + b_ * 5)
                for a in (rng.fill(24), rng.getrandbits(12), 1, 0xFFFFFF):
                    if ctx.mine(i):
                        yield "addr", {"n": n, "addr": a, "data": "%X" % d, "lower": (sh + m_) % 3 == 0, "genmult": 1}
                    i += 1
    # frames whose running remainder becomes a leading one followed by 45+ ones half-way through the division
    for k in range(ctx.share(6000 if quick else 200000)):
        n = rng.choice((56, 112, 112))
        F = bits.frame_with_run_remainder(rng, n)
        data, ap = F >> 24, F & 0xFFFFFF
        a = bits.uplink_overlay_inverse(ap ^ bits.parity(data, n))
        yield "addr", {"n": n, "addr": a, "data": "%X" % data, "lower": k % 4 == 0, "runrem": 1}
    for k in range(ctx.share(100000 if quick else 4000000)):
        n = rng.choice((56, 112))
        yield "addr", {"n": n, "addr": rng.fill(24), "data": "%X" % rng.fill(n - 24), "lower": k % 4 == 0}
    # exhaustive field product, grouped per (UF, RR)
    for ufv in range(32):
        for rr in range(32):
            if ctx.mine(i):
                frames = []
                for di in range(8):
                    for rrs in range(16):
                        sd = rng.fill(16)
                        if di == 7:
                            sd = (sd & 0xF0FF) | (rrs << 8)
                        elif di == 3:
                            sd = (sd & 0xFE1F) | ((rrs >> 3) << 8) | ((rrs & 7) << 5)
                        n = 112 if ufv in (20, 21) or (ufv >= 16 and ufv not in (4, 5, 11) and rng.random() < 0.5) else 56
                        frames.append({"uf": ufv, "n": n, "pc": rng.randrange(8), "rr": rr, "di": di, "sd": sd,
                                       "pr": rng.randrange(16), "ic": rng.randrange(16), "cl": rng.randrange(8),
                                       "addr": rng.fill(24)})
                yield "fields", {"frames": frames}
            i += 1
    # IIS x LOS / SIS x LSS
    for ufv in (4, 5, 20, 21):
        for di in (0, 1, 7, 3, 2, 4, 5, 6):
            if ctx.mine(i):
                frames = []
                for code in range(64):
                    for lo in (0, 1):
                        sd = rng.fill(16)
                        if di == 3:
                            sd = (sd & 0x01FF) | (code << 10) | (lo << 9)
                        else:
                            sd = (sd & 0x0FBF) | ((code & 15) << 12) | (lo << 6)
                        frames.append({"uf": ufv, "n": 112 if ufv >= 20 else 56, "pc": rng.randrange(8), "rr": rng.randrange(32),
                                       "di": di, "sd": sd, "addr": rng.fill(24)})
                yield "fields", {"frames": frames}
            i += 1
    # UF11: PR x CL x IC
    for pr in range(16):
        if ctx.mine(i):
            frames = [{"uf": 11, "n": 56, "pr": pr, "cl": cl, "ic": icf, "addr": rng.fill(24)}
                      for cl in range(8) for icf in range(16)]
            yield "fields", {"frames": frames}
        i += 1
    if not quick:
        for k in range(ctx.share(4000)):
            frames = []
            for _ in range(128):
                ufv = rng.choice((4, 5, 20, 21, 11, rng.randrange(32)))
                frames.append({"uf": ufv, "n": 112 if ufv in (20, 21) else 56, "pc": rng.randrange(8), "rr": rng.randrange(32),
                               "di": rng.randrange(8), "sd": rng.fill(16), "pr": rng.randrange(16), "ic": rng.randrange(16),
                               "cl": rng.randrange(8), "addr": rng.fill(24)})
            yield "fields", {"frames": frames}
