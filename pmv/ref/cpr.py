"""Reference CPR model (DO-260B A.1.7): NL table from closed-form transition
latitudes and the *encoder*; no pyModeS import, no decoder."""
import math
from bisect import bisect_right

# transition latitudes T(NL), NL = 2..59 : NL(lat) = k for T(k+1) <= |lat| < T(k)
def _T(nl):
    return math.degrees(math.acos(math.sqrt((1 - math.cos(math.pi / 30)) / (1 - math.cos(2 * math.pi / nl)))))

TRANS = {nl: _T(nl) for nl in range(3, 60)}
TRANS[2] = 87.0  # closed form gives acos(sin 3deg) = 87 exactly
# ascending list of transition latitudes: T(59) < T(58) < ... < T(2)=87
_ASC = [TRANS[nl] for nl in range(59, 1, -1)]


def NL(lat: float) -> int:
    a = abs(lat)
    if a > 87.0:
        return 1
    if a == 87.0:
        return 2
    # number of transitions <= a
    k = bisect_right(_ASC, a)
    return 59 - k


def near_transition(lat: float, eps: float = 1e-9) -> bool:
    a = abs(lat)
    k = bisect_right(_ASC, a)
    for j in (k - 1, k):
        if 0 <= j < len(_ASC) and abs(_ASC[j] - a) <= eps:
            return True
    return False


def nearest_transition(lat: float):
    """(NL k of the nearest transition latitude T(k), |abs(lat) - T(k)|)"""
    a = abs(lat)
    best = min(TRANS.items(), key=lambda kv: abs(kv[1] - a))
    return best[0], abs(best[1] - a)


def NL_allowed(lat: float, eps: float = 1e-9):
    """set of NL values acceptable at lat (both neighbours within eps of a transition)"""
    a = abs(lat)
    s = {NL(a)}
    if a == 87.0:
        return s          # DO-260B defines NL(+-87) = 2 explicitly: nothing is ambiguous at the exact value
    if near_transition(a, eps):
        s.add(NL(max(a - 2 * eps, 0.0)))
        s.add(NL(a + 2 * eps))
    return s


def _mod(x, y):
    return x - y * math.floor(x / y)


def encode(lat: float, lon: float, i: int, surface: bool = False):
    """returns (YZ17, XZ17, rlat, dlat, dlon) for CPR format i (0 even / 1 odd)"""
    nb = 19 if surface else 17
    dlat = 360.0 / (60 - i)
    yz = math.floor((1 << nb) * _mod(lat, dlat) / dlat + 0.5)
    rlat = dlat * (yz / (1 << nb) + math.floor(lat / dlat))
    dlon = 360.0 / max(NL(rlat) - i, 1)
    xz = math.floor((1 << nb) * _mod(lon, dlon) / dlon + 0.5)
    return yz & 0x1FFFF, xz & 0x1FFFF, rlat, dlat, dlon


def steps(rlat: float, i: int, surface: bool):
    """quantisation steps (deg) in latitude and longitude of the transmitted code"""
    q = 4.0 if surface else 1.0
    dlat = 360.0 / (60 - i) / q
    dlon = 360.0 / max(NL(rlat) - i, 1) / q
    return dlat / 131072.0, dlon / 131072.0, dlat, dlon


def me_airborne(tc: int, ss: int, saf: int, alt12: int, t: int, i: int, yz: int, xz: int) -> int:
    """56-bit ME of an airborne position message"""
    return ((tc & 31) << 51) | ((ss & 3) << 49) | ((saf & 1) << 48) | ((alt12 & 0xFFF) << 36) | ((t & 1) << 35) | \
        ((i & 1) << 34) | ((yz & 0x1FFFF) << 17) | (xz & 0x1FFFF)


def me_surface(tc: int, mov: int, trk_status: int, trk: int, t: int, i: int, yz: int, xz: int) -> int:
    return ((tc & 31) << 51) | ((mov & 127) << 44) | ((trk_status & 1) << 43) | ((trk & 127) << 36) | ((t & 1) << 35) | \
        ((i & 1) << 34) | ((yz & 0x1FFFF) << 17) | (xz & 0x1FFFF)


def lon_diff(a, b):
    d = (a - b) % 360.0
    return min(d, 360.0 - d)


def destination(lat, lon, bearing_deg, dist_nm):
    """great-circle destination point (spherical earth, 1 NM = 1/60 deg of arc)"""
    d = math.radians(dist_nm / 60.0)
    b = math.radians(bearing_deg)
    p1 = math.radians(lat)
    l1 = math.radians(lon)
    s = math.sin(p1) * math.cos(d) + math.cos(p1) * math.sin(d) * math.cos(b)
    s = max(-1.0, min(1.0, s))
    p2 = math.asin(s)
    l2 = l1 + math.atan2(math.sin(b) * math.sin(d) * math.cos(p1), math.cos(d) - math.sin(p1) * math.sin(p2))
    lon2 = (math.degrees(l2) + 180.0) % 360.0 - 180.0
    return math.degrees(p2), lon2


def arc_deg(lat1, lon1, lat2, lon2):
    """great-circle angle in degrees (haversine)"""
    p1, p2 = math.radians(lat1), math.radians(lat2)
    dl = math.radians(lon2 - lon1)
    h = math.sin((p2 - p1) / 2) ** 2 + math.cos(p1) * math.cos(p2) * math.sin(dl / 2) ** 2
    return math.degrees(2 * math.asin(min(1.0, math.sqrt(h))))
