"""Analytic International Standard Atmosphere (hydrostatic formulas) and haversine; no pyModeS import."""
import math

g0 = 9.80665
R = 287.05287
T0 = 288.15
p0 = 101325.0
L = -0.0065
H11 = 11000.0
T11 = T0 + L * H11
p11 = p0 * (T11 / T0) ** (-g0 / (L * R))
REARTH = 6371000.0


def atmos(H):
    if H <= H11:
        T = T0 + L * H
        p = p0 * (T / T0) ** (-g0 / (L * R))
    else:
        T = T11
        p = p11 * math.exp(-g0 * (H - H11) / (R * T11))
    rho = p / (R * T)
    return p, rho, T


def haversine(lat1, lon1, lat2, lon2, r=REARTH):
    p1, p2 = math.radians(lat1), math.radians(lat2)
    dl = math.radians(lon2 - lon1)
    h = math.sin((p2 - p1) / 2) ** 2 + math.cos(p1) * math.cos(p2) * math.sin(dl / 2) ** 2
    return 2 * r * math.asin(min(1.0, math.sqrt(h)))


KTS = 0.514444
FT = 0.3048
RHO0 = p0 / (R * T0)


def vsound(H):
    return math.sqrt(1.4 * R * atmos(H)[2])


def mach2tas(M, H):
    return M * vsound(H)


def tas2cas(V, H):
    p, rho, T = atmos(H)
    q = p * ((1 + rho * V * V / (7 * p)) ** 3.5 - 1.0)
    return math.sqrt(7 * p0 / RHO0 * ((q / p0 + 1.0) ** (2 / 7.0) - 1.0))


def cas2tas(V, H):
    p, rho, T = atmos(H)
    q = p0 * ((1 + RHO0 * V * V / (7 * p0)) ** 3.5 - 1.0)
    return math.sqrt(7 * p / rho * ((1 + q / p) ** (2 / 7.0) - 1.0))


def mach2cas(M, H):
    return tas2cas(mach2tas(M, H), H)
