"""Serialisers for the three TCP stream formats (forward direction) with frame boundaries."""


def beast_frame(ftype: int, ts6: bytes, sig: int, payload: bytes) -> bytes:
    """<esc> type timestamp(6) signal(1) payload, every 0x1A in the body doubled"""
    body = bytes(ts6) + bytes([sig]) + bytes(payload)
    out = bytearray([0x1A, ftype])
    for b in body:
        out.append(b)
        if b == 0x1A:
            out.append(0x1A)
    return bytes(out)


def avr_frame(hexmsg: str, sep: str = "\n") -> bytes:
    return ("*" + hexmsg + ";" + sep).encode()


def skysense_frame(payload: bytes, ts6: bytes, rs3: bytes) -> bytes:
    p = bytes(payload) + bytes(14 - len(payload))
    return b"$" + p + bytes(ts6) + bytes(rs3)


def build(frames):
    """frames: list of bytes -> (stream, [end offset of each frame])"""
    s = bytearray()
    ends = []
    for f in frames:
        s += f
        ends.append(len(s))
    return bytes(s), ends
