"""2 MS/s pulse-position modulator for Mode S replies (forward direction)."""

PREAMBLE = [1, 0, 1, 0, 0, 0, 0, 1, 0, 1, 0, 0, 0, 0, 0, 0]


def modulate(x: int, nbits: int, amp: float):
    """amplitude samples of preamble + nbits PPM bits (1 -> high,low ; 0 -> low,high); lows are 0"""
    s = [amp * p for p in PREAMBLE]
    for k in range(nbits - 1, -1, -1):
        if (x >> k) & 1:
            s += [amp, 0.0]
        else:
            s += [0.0, amp]
    return s
