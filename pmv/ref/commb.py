"""Declarative Comm-B field table (ICAO Doc 9871, MB bit 1 = most significant of 56)."""

# name: (module, status_bit|None, sign_bit|None, msb, lsb, lsb_value, offset, wrap360)
FIELDS = {
    "selalt40mcp": ("bds40", 1, None, 2, 13, 16, 0, False),
    "selalt40fms": ("bds40", 14, None, 15, 26, 16, 0, False),
    "p40baro": ("bds40", 27, None, 28, 39, 0.1, 800, False),
    "p44": ("bds44", 35, None, 36, 46, 1, 0, False),
    "turb44": ("bds44", 47, None, 48, 49, 1, 0, False),
    "hum44": ("bds44", 50, None, 51, 56, 100.0 / 64.0, 0, False),
    "turb45": ("bds45", 1, None, 2, 3, 1, 0, False),
    "ws45": ("bds45", 4, None, 5, 6, 1, 0, False),
    "mb45": ("bds45", 7, None, 8, 9, 1, 0, False),
    "ic45": ("bds45", 10, None, 11, 12, 1, 0, False),
    "wv45": ("bds45", 13, None, 14, 15, 1, 0, False),
    "temp45": ("bds45", None, 17, 18, 26, 0.25, 0, False),
    "p45": ("bds45", 27, None, 28, 38, 1, 0, False),
    "rh45": ("bds45", 39, None, 40, 51, 16, 0, False),
    "roll50": ("bds50", 1, 2, 3, 11, 45.0 / 256.0, 0, False),
    "trk50": ("bds50", 12, 13, 14, 23, 90.0 / 512.0, 0, True),
    "gs50": ("bds50", 24, None, 25, 34, 2, 0, False),
    "rtrk50": ("bds50", 35, 36, 37, 45, 8.0 / 256.0, 0, False),
    "tas50": ("bds50", 46, None, 47, 56, 2, 0, False),
    "hdg53": ("bds53", 1, 2, 3, 12, 90.0 / 512.0, 0, True),
    "ias53": ("bds53", 13, None, 14, 23, 1, 0, False),
    "mach53": ("bds53", 24, None, 25, 33, 0.008, 0, False),
    "tas53": ("bds53", 34, None, 35, 46, 0.5, 0, False),
    "vr53": ("bds53", 47, 48, 49, 56, 64, 0, False),
    "hdg60": ("bds60", 1, 2, 3, 12, 90.0 / 512.0, 0, True),
    "ias60": ("bds60", 13, None, 14, 23, 1, 0, False),
    "mach60": ("bds60", 24, None, 25, 34, 2.048 / 512.0, 0, False),
    "vr60baro": ("bds60", 35, 36, 37, 45, 32, 0, False),
    "vr60ins": ("bds60", 46, 47, 48, 56, 32, 0, False),
}
ALIASES = {"alt40mcp": "selalt40mcp", "alt40fms": "selalt40fms"}

CAP17 = ["05", "06", "07", "08", "09", "0A", "20", "21", "40", "41", "42", "43", "44", "45", "48", "50", "51", "52", "53",
         "54", "55", "56", "5F", "60"]


def put(mb, first, last, val):
    w = last - first + 1
    sh = 56 - last
    mask = ((1 << w) - 1) << sh
    return (mb & ~mask) | ((val << sh) & mask)


def place(mb, name, status, sign, raw):
    mod, sb, gb, msb, lsb, k, off, wrap = FIELDS[name]
    if sb is not None:
        mb = put(mb, sb, sb, status)
    if gb is not None:
        mb = put(mb, gb, gb, sign)
    return put(mb, msb, lsb, raw)


def expected(name, status, sign, raw):
    mod, sb, gb, msb, lsb, k, off, wrap = FIELDS[name]
    if sb is not None and not status:
        return None
    w = lsb - msb + 1
    v = raw - (1 << w) if (gb is not None and sign) else raw
    x = v * k + off
    if wrap and x < 0:
        x += 360.0
    return x


def own_bits(name):
    mod, sb, gb, msb, lsb, k, off, wrap = FIELDS[name]
    s = set(range(msb, lsb + 1))
    if sb is not None:
        s.add(sb)
    if gb is not None:
        s.add(gb)
    return s
