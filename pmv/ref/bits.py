"""Reference bit-level models for Mode S frames (no pyModeS import).

Frames are Python ints of `nbits` (56 or 112) bits, bit 1 = most significant.
"""
GEN = 0x1FFF409  # x^24 + ... + 1, 25 bits


def polymod(x: int, nbits: int) -> int:
    """remainder of the frame polynomial x (nbits wide) modulo GEN"""
    for i in range(nbits - 1, 23, -1):
        if (x >> i) & 1:
            x ^= GEN << (i - 24)
    return x & 0xFFFFFF


def parity(data: int, nbits: int) -> int:
    """parity of the data part (top nbits-24 bits given as an int of nbits-24 bits)"""
    return polymod(data << 24, nbits)


def with_pi(data: int, nbits: int, overlay: int = 0) -> int:
    """append parity XOR overlay (address for AP formats, IC for DF11, 0 for DF17/18)"""
    return (data << 24) | (parity(data, nbits) ^ (overlay & 0xFFFFFF))


def tohex(x: int, nbits: int, case: str = "upper", rng=None) -> str:
    s = "%0*X" % (nbits // 4, x)
    if case == "lower":
        return s.lower()
    if case == "mixed":
        return "".join(c.lower() if rng.random() < 0.5 else c for c in s)
    return s


def field(x: int, nbits: int, first: int, last: int) -> int:
    """bits first..last (1-based, inclusive) of an nbits-wide int"""
    w = last - first + 1
    return (x >> (nbits - last)) & ((1 << w) - 1)


def setfield(x: int, nbits: int, first: int, last: int, val: int) -> int:
    w = last - first + 1
    sh = nbits - last
    mask = ((1 << w) - 1) << sh
    return (x & ~mask) | ((val << sh) & mask)


def df_len(df: int) -> int:
    """standard length of a downlink format"""
    return 56 if df in (0, 4, 5, 11) else 112


def downlink(df: int, body: int, nbits: int, addr: int = 0, ic: int = 0) -> int:
    """Build a frame: 5 bits DF + body (nbits-29 bits) + PI/AP.
    AP formats (0,4,5,16,20,21): parity XOR address.  DF11: AA inside body,
    parity XOR interrogator code.  DF17/18: parity."""
    data = (df << (nbits - 29)) | (body & ((1 << (nbits - 29)) - 1))
    if df in (0, 4, 5, 16, 20, 21):
        return with_pi(data, nbits, addr)
    if df == 11:
        return with_pi(data, nbits, ic)
    return with_pi(data, nbits, 0)


def es_frame(df: int, ca: int, addr: int, me: int) -> int:
    """112-bit extended squitter DF17/18: DF(5) CA(3) AA(24) ME(56) PI(24)"""
    data = (df << 83) | ((ca & 7) << 80) | ((addr & 0xFFFFFF) << 56) | (me & ((1 << 56) - 1))
    return with_pi(data, 112, 0)


def commb_frame(df: int, hdr27: int, mb: int, addr: int) -> int:
    """112-bit DF20/21: DF(5) + 27 header bits (FS DR UM AC/ID) + MB(56) + AP"""
    data = (df << 83) | ((hdr27 & ((1 << 27) - 1)) << 56) | (mb & ((1 << 56) - 1))
    return with_pi(data, 112, addr)


def uplink_overlay(addr: int) -> int:
    """Annex 10 uplink address overlay: top 24 bits of G(x)*A(x) (48-bit product)"""
    prod = 0
    for i in range(24):
        if (addr >> i) & 1:
            prod ^= GEN << i
    return (prod >> 24) & 0xFFFFFF


def uplink(data: int, nbits: int, addr: int) -> int:
    """uplink frame: data (nbits-24 bits) + AP = parity XOR modified address"""
    return (data << 24) | (parity(data, nbits) ^ uplink_overlay(addr))


PI_TAILS = ("000000", "FFFFFF", "5A5A5A")


def anypi(rng, hx: str, p: float = 0.25) -> str:
    """The field decoders do not (and need not) verify the parity of an extended squitter: with probability p the PI
    field is replaced by a constant or random value, so that consecutive different frames may share their last 24 bits;
    with probability 0.12 address and PI are copied from the frame produced just before (same transponder, same last
    24 bits, different ME) - a memo keyed by a part of the frame shows on such sequences only."""
    global _PREV
    u = rng.random()
    if u < 0.12 and _PREV is not None and len(_PREV) == len(hx):
        hx = hx[:2] + _PREV[2:8] + hx[8:-6] + _PREV[-6:]
    elif u < 0.12 + p:
        t = rng.choice(PI_TAILS + ("%06X" % rng.getrandbits(24),))
        hx = hx[:-6] + t
    _PREV = hx
    return hx


_PREV = None


def uplink_overlay_inverse(ov: int) -> int:
    """the address whose uplink overlay (top 24 bits of G(x)*A(x)) equals ov; the map is linear with unit diagonal"""
    a = 0
    for i in range(23, -1, -1):           # overlay bit i = address bit i  XOR  contributions of higher address bits
        cur = (uplink_overlay(a) >> i) & 1
        if cur != (ov >> i) & 1:
            a |= 1 << i
    return a


def clmul(a: int, b: int) -> int:
    r = 0
    while a:
        if a & 1:
            r ^= b
        a >>= 1
        b <<= 1
    return r


def frame_with_run_remainder(rng, nbits: int) -> int:
    """an nbits-wide value whose long division by GEN, after k steps, leaves a running remainder that is a leading one
    followed by 45+ ones (then arbitrary bits): boundary pattern of the INTERMEDIATE state of every CRC-style divider"""
    k = rng.randrange(0, min(nbits - 24, nbits - 45) + 1)
    pos = nbits - 1 - k                      # degree of the remainder after k quotient bits
    L = rng.randint(45, min(pos + 1, 90))
    low = pos + 1 - L
    rem = (((1 << L) - 1) << low) | (rng.getrandbits(low) if low else 0)
    q = (1 << (k - 1)) | rng.getrandbits(k - 1) if k > 1 else (1 if k == 1 else 0)
    return (clmul(q, GEN) << (nbits - 24 - k)) ^ rem if k else rem
