"""Forward encoders for the 13-bit altitude code (Annex 10 3.1.2.6.5.4) and the
13-bit identity code; the altitude *table* is derived from the encoders only."""

_C_SEQ = [0b001, 0b011, 0b010, 0b110, 0b100]  # C1C2C4 for rising altitude inside an even 500-ft band

# 13-bit layout, index 0 = first transmitted bit
ALT_LAYOUT = ["C1", "A1", "C2", "A2", "C4", "A4", "M", "B1", "Q", "B2", "D2", "B4", "D4"]
ID_LAYOUT = ["C1", "A1", "C2", "A2", "C4", "A4", "X", "B1", "D1", "B2", "D2", "B4", "D4"]


def gillham_bits(alt_ft: int) -> dict:
    """named pulses for a 100-ft altitude in -1200..126700"""
    n = (alt_ft + 1200) // 100
    assert 0 <= n <= 1279 and (alt_ft + 1200) % 100 == 0
    n500, k = divmod(n, 5)
    c = _C_SEQ[k] if n500 % 2 == 0 else _C_SEQ[4 - k]
    g = n500 ^ (n500 >> 1)
    names = ["D2", "D4", "A1", "A2", "A4", "B1", "B2", "B4"]
    b = {nm: (g >> (7 - i)) & 1 for i, nm in enumerate(names)}
    b["C1"], b["C2"], b["C4"] = (c >> 2) & 1, (c >> 1) & 1, c & 1
    return b


def pack(layout, b: dict) -> int:
    v = 0
    for nm in layout:
        v = (v << 1) | (b.get(nm, 0) & 1)
    return v


def gillham_code13(alt_ft: int) -> int:
    b = gillham_bits(alt_ft)
    b["M"] = 0
    b["Q"] = 0
    return pack(ALT_LAYOUT, b)


def q_code13(n11: int) -> int:
    """Q=1 code carrying the 11-bit integer n11 (altitude n11*25-1000 ft)"""
    hi6 = (n11 >> 5) & 0x3F     # bits before M
    b1 = (n11 >> 4) & 1         # bit between M and Q
    lo4 = n11 & 0xF             # bits after Q
    return (hi6 << 7) | (0 << 6) | (b1 << 5) | (1 << 4) | lo4


def m_code13(n12: int) -> int:
    """M=1 code carrying the 12-bit integer n12 (metres)"""
    hi6 = (n12 >> 6) & 0x3F
    lo6 = n12 & 0x3F
    return (hi6 << 7) | (1 << 6) | lo6


def altitude_table():
    """dict code13 -> expected: int feet | None | ('metric', n12)"""
    t = {}
    for code in range(8192):
        t[code] = None  # all-zero and every illegal Gillham pattern
    for alt in range(-1200, 126701, 100):
        t[gillham_code13(alt)] = alt
    for n in range(2048):
        t[q_code13(n)] = n * 25 - 1000
    for n in range(4096):
        t[m_code13(n)] = ("metric", n)
    t[0] = None
    return t


def identity_code13(a: int, b: int, c: int, d: int, x: int = 0) -> int:
    bits = {"X": x}
    for nm, dig in (("A", a), ("B", b), ("C", c), ("D", d)):
        bits[nm + "4"], bits[nm + "2"], bits[nm + "1"] = (dig >> 2) & 1, (dig >> 1) & 1, dig & 1
    return pack(ID_LAYOUT, bits)
