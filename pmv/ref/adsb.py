"""DO-260B ME-field builders (forward direction); ME bit 1 = most significant of 56."""


def put(me: int, first: int, last: int, val: int) -> int:
    w = last - first + 1
    sh = 56 - last
    mask = ((1 << w) - 1) << sh
    return (me & ~mask) | ((val << sh) & mask)


def get(me: int, first: int, last: int) -> int:
    w = last - first + 1
    return (me >> (56 - last)) & ((1 << w) - 1)


def tc19(subtype, f14, v15_24, f25, v26_35, vr_src, vr_sign, vr, diff_sign, diff, ic=0, ifr=0, nac=0, resv=0):
    """f14: E/W direction (st 1,2) or heading status (st 3,4); f25: N/S direction or airspeed type"""
    me = 0
    me = put(me, 1, 5, 19)
    me = put(me, 6, 8, subtype)
    me = put(me, 9, 9, ic)
    me = put(me, 10, 10, ifr)
    me = put(me, 11, 13, nac)
    me = put(me, 14, 14, f14)
    me = put(me, 15, 24, v15_24)
    me = put(me, 25, 25, f25)
    me = put(me, 26, 35, v26_35)
    me = put(me, 36, 36, vr_src)
    me = put(me, 37, 37, vr_sign)
    me = put(me, 38, 46, vr)
    me = put(me, 47, 48, resv)
    me = put(me, 49, 49, diff_sign)
    me = put(me, 50, 56, diff)
    return me


# surface movement: piecewise linear between the DO-260B breakpoints
_MOV_BP = [(2, 0.125), (9, 1.0), (13, 2.0), (39, 15.0), (94, 70.0), (109, 100.0), (124, 175.0)]


def movement_kt(mov: int):
    if mov == 0 or mov > 124:
        return None
    if mov == 1:
        return 0.0
    for (b0, k0), (b1, k1) in zip(_MOV_BP, _MOV_BP[1:]):
        if b0 <= mov < b1:
            return k0 + (mov - b0) * (k1 - k0) / (b1 - b0)
    return 175.0


def tc_surface(tc, mov, trk_status, trk, t=0, f=0, lat=0, lon=0):
    me = 0
    me = put(me, 1, 5, tc)
    me = put(me, 6, 12, mov)
    me = put(me, 13, 13, trk_status)
    me = put(me, 14, 20, trk)
    me = put(me, 21, 21, t)
    me = put(me, 22, 22, f)
    me = put(me, 23, 39, lat)
    me = put(me, 40, 56, lon)
    return me


def tc28(subtype, state, squawk13, rest=0):
    me = rest & ((1 << 32) - 1)
    me = put(me, 1, 5, 28)
    me = put(me, 6, 8, subtype)
    me = put(me, 9, 11, state)
    me = put(me, 12, 24, squawk13)
    return me


def tc29_v1(vmode_ind, alt_type, back_compat, alt_cap, vmode, alt, hdata_avail, angle, trk_flag, hmode, nacp, nic_baro,
            sil, resv, tcas_cap_mode, emerg):
    """subtype 0 (DO-260A) target state and status"""
    me = 0
    me = put(me, 1, 5, 29)
    me = put(me, 6, 7, 0)
    me = put(me, 8, 9, vmode_ind)      # vertical data available / source indicator
    me = put(me, 10, 10, alt_type)     # target altitude type (FL / MSL)
    me = put(me, 11, 11, back_compat)
    me = put(me, 12, 13, alt_cap)
    me = put(me, 14, 15, vmode)        # vertical mode indicator
    me = put(me, 16, 25, alt)          # target altitude
    me = put(me, 26, 27, hdata_avail)  # horizontal data available / source indicator
    me = put(me, 28, 36, angle)        # target heading / track angle
    me = put(me, 37, 37, trk_flag)     # target heading / track indicator
    me = put(me, 38, 39, hmode)        # horizontal mode indicator
    me = put(me, 40, 43, nacp)
    me = put(me, 44, 44, nic_baro)
    me = put(me, 45, 46, sil)
    me = put(me, 47, 51, resv)
    me = put(me, 52, 53, tcas_cap_mode)
    me = put(me, 54, 56, emerg)
    return me


def tc29_v2(sil_sup, alt_src, alt, baro, hdg_status, hdg_sign, hdg, nacp, nic_baro, sil, mode_status, autopilot, vnav,
            alt_hold, adsr, approach, tcas, lnav, resv):
    """subtype 1 (DO-260B) target state and status"""
    me = 0
    me = put(me, 1, 5, 29)
    me = put(me, 6, 7, 1)
    me = put(me, 8, 8, sil_sup)
    me = put(me, 9, 9, alt_src)
    me = put(me, 10, 20, alt)
    me = put(me, 21, 29, baro)
    me = put(me, 30, 30, hdg_status)
    me = put(me, 31, 31, hdg_sign)
    me = put(me, 32, 39, hdg)
    me = put(me, 40, 43, nacp)
    me = put(me, 44, 44, nic_baro)
    me = put(me, 45, 46, sil)
    me = put(me, 47, 47, mode_status)
    me = put(me, 48, 48, autopilot)
    me = put(me, 49, 49, vnav)
    me = put(me, 50, 50, alt_hold)
    me = put(me, 51, 51, adsr)
    me = put(me, 52, 52, approach)
    me = put(me, 53, 53, tcas)
    me = put(me, 54, 54, lnav)
    me = put(me, 55, 56, resv)
    return me


def tc31(subtype, cc16, om16, version, nic_s, nacp, baq_gva, sil, nic_baro_trk, hrd, sil_sup, resv):
    me = 0
    me = put(me, 1, 5, 31)
    me = put(me, 6, 8, subtype)
    me = put(me, 9, 24, cc16)
    me = put(me, 25, 40, om16)
    me = put(me, 41, 43, version)
    me = put(me, 44, 44, nic_s)
    me = put(me, 45, 48, nacp)
    me = put(me, 49, 50, baq_gva)
    me = put(me, 51, 52, sil)
    me = put(me, 53, 53, nic_baro_trk)
    me = put(me, 54, 54, hrd)
    me = put(me, 55, 55, sil_sup)
    me = put(me, 56, 56, resv)
    return me
