"""Module-level tables of the library are constants: what a module-level dict / list / set / array CONTAINED when the library was
imported is still there, unchanged, after the whole workload and all replay phases.  (Containers that were empty at import -
memos, lazily filled tables - are none of this monitor's business, and new keys added to a table are not judged either: only
entries present at import that have been edited or removed; slots that held a placeholder - None, 0, -1, '', NaN - are skipped, a
table may be pre-allocated and filled on first use.)  A look-up that hands out its table entry by reference and then
"blanks a field for this caller" edits the entry for every later caller."""
from __future__ import annotations

import copy
import sys

_SNAP = {}


def _containers():
    for name, mod in list(sys.modules.items()):
        if mod is None or not name.startswith("pyModeS"):
            continue
        for k, v in list(getattr(mod, "__dict__", {}).items()):
            if k.startswith("__"):
                continue
            if isinstance(v, (dict, list, set)) and len(v) > 0:
                yield name + "." + k, v
            else:
                try:
                    import numpy as np
                    if isinstance(v, np.ndarray) and v.size > 0:
                        yield name + "." + k, v
                except Exception:
                    pass


def snapshot():
    _SNAP.clear()
    for key, v in _containers():
        try:
            _SNAP[key] = (v, copy.deepcopy(v))
        except Exception:
            pass


def _placeholder(v):
    """a slot that was only reserved at import (None, 0, -1, '', NaN): a table may legitimately be pre-allocated and filled on
    first use - such slots are not judged"""
    try:
        if v is None or v == "" or v == 0 or v == -1 or v != v:
            return True
    except Exception:
        pass
    return False


def _diff(now, then):
    try:
        import numpy as np
        if isinstance(then, np.ndarray):
            if np.shape(now) != np.shape(then):
                return "array reshaped"
            if then.dtype.kind in "biufc":
                keep = ~((then == 0) | (then == -1) | (then != then))
                return None if np.array_equal(np.asarray(now)[keep], then[keep], equal_nan=True) else "array contents changed"
            return None if np.array_equal(now, then) else "array contents changed"
    except Exception:
        pass
    if isinstance(then, dict):
        for k, v in then.items():
            if k not in now:
                return "entry %r removed" % (k,)
            if _placeholder(v):
                continue
            if now[k] != v and repr(now[k]) != repr(v):
                return "entry %r changed from %s to %s" % (k, repr(v)[:80], repr(now[k])[:80])
        return None
    if isinstance(then, list):
        if len(now) < len(then):
            return "list shortened from %d to %d entries" % (len(then), len(now))
        for j_, v in enumerate(then):
            if not _placeholder(v) and now[j_] != v and repr(now[j_]) != repr(v):
                return "entry %d changed from %s to %s" % (j_, repr(v)[:80], repr(now[j_])[:80])
        return None
    if isinstance(then, set):
        return None if then <= now else "elements removed: %s" % repr(sorted(then - now, key=repr))[:80]
    return None


def verify(ctx):
    n = 0
    for key, (obj, then) in _SNAP.items():
        n += 1
        why = _diff(obj, then)
        if why:
            ctx.violation("module-level-table-edited:" + key.split(".")[-1], table=key, change=why, monitor="tables", case=None)
    ctx.hit("module_level_tables_unchanged_after_the_run", n)


def load_and_snapshot():
    """import the decoder modules (their tables come into being at import) and remember what the tables contain"""
    import contextlib
    import importlib
    import io
    import pkgutil
    names = ["pyModeS.py_common", "pyModeS.extra.aero", "pyModeS.decoder.uncertainty", "pyModeS.decoder.adsb", "pyModeS.decoder.commb",
             "pyModeS.decoder.surv", "pyModeS.decoder.allcall", "pyModeS.decoder.uplink", "pyModeS.decoder.bds", "pyModeS.streamer.decode"]
    try:
        import pyModeS.decoder.bds as _b
        names += ["pyModeS.decoder.bds." + m.name for m in pkgutil.iter_modules(_b.__path__)]
    except Exception:
        pass
    for n in names:
        try:
            with contextlib.redirect_stdout(io.StringIO()):
                importlib.import_module(n)
        except Exception:
            pass
    snapshot()
