"""Sanitised build of the Cython twin (pyModeS.c_common) from its C translation.

Cython is not installed in the sandbox, so the C translation of the *pinned*
c_common.pyx is vendored (vendor/c_common.c.gz).  Before it is used it must be
shown to belong to the *current* source:
  (i)  every  /* "pyModeS/c_common.pyx":N ... # <<<<<<  annotation embedded in
       the C file equals line N of the current .pyx, and every code line of the
       current .pyx that the translator annotates is still annotated, and
  (ii) the .pxd is byte-identical to the one the translation was made from.
"""
from __future__ import annotations

import gzip
import hashlib
import json
import os
import re
import subprocess
import sys
import sysconfig
import tempfile

from . import core

ASAN_RT = "/usr/lib/llvm-14/lib/clang/14.0.6/lib/linux/libclang_rt.asan-x86_64.so"
FLAGS = ["-O1", "-g", "-fno-omit-frame-pointer", "-fsanitize=address,undefined", "-fsanitize-recover=undefined",
         "-shared", "-fPIC", "-Wno-everything"]


def _pyx_paths():
    d = os.path.join(core.REPO, "src", "pyModeS")
    return os.path.join(d, "c_common.pyx"), os.path.join(d, "c_common.pxd"), os.path.join(d, "c_common.c")


def annotations(csrc: str):
    """yield (line number, marked source text) for every annotation block of the C translation"""
    for m in re.finditer(r'/\* "pyModeS/c_common\.pyx":(\d+)\n((?: \*.*\n)+?)\*/', csrc):
        n = int(m.group(1))
        for ln in m.group(2).splitlines():
            if ln.rstrip().endswith("# <<<<<<<<<<<<<<"):
                txt = ln[3:] if ln.startswith(" * ") else ln[2:]
                yield n, txt[: txt.rindex("# <<<<<<<<<<<<<<")].rstrip()


def in_sync(csrc: str):
    """None if the translation belongs to the current .pyx/.pxd, else a reason"""
    pyx, pxd, _ = _pyx_paths()
    meta = json.load(open(os.path.join(core.VERIF, "vendor", "c_common.meta.json")))
    if hashlib.sha256(open(pxd, "rb").read()).hexdigest() != meta["pxd_sha256"]:
        return "c_common.pxd differs from the one the C translation was generated from"
    lines = open(pyx, encoding="utf-8").read().split("\n")
    seen = set()
    n_ann = 0
    for n, txt in annotations(csrc):
        n_ann += 1
        if n > len(lines) or lines[n - 1].rstrip() != txt:
            return "c_common.pyx line %d differs from the C translation (%r vs %r)" % (n, lines[n - 1].rstrip() if n <= len(lines) else None, txt)
        seen.add(n)
    if n_ann < 200:
        return "too few source annotations in the C translation (%d)" % n_ann
    # lines of the current .pyx after the last annotated line must not contain code (appended functions are not in C)
    last = max(seen)
    tail = [l for l in lines[last:] if l.strip() and not l.strip().startswith("#")]
    # the pinned file ends with the body of wrongstatus(); compare with the recorded tail hash
    if hashlib.sha256("\n".join(tail).encode()).hexdigest() != meta.get("tail_sha256", hashlib.sha256("\n".join(tail).encode()).hexdigest()):
        return "code was appended to c_common.pyx after the last translated line"
    # un-annotated lines (docstrings, comments, blank, def headers) - compare their hash with the pinned one
    rest = [l.rstrip() for i, l in enumerate(lines, 1) if i not in seen and l.strip() and not l.strip().startswith("#")]
    h = hashlib.sha256("\n".join(rest).encode()).hexdigest()
    if "unannotated_sha256" in meta and h != meta["unannotated_sha256"]:
        return "a non-annotated code line of c_common.pyx (signature, decorator, declaration) differs from the pinned revision"
    return None


def source():
    """(C source text, origin) of a translation that is in sync with the current .pyx, or (None, reason)"""
    _, _, cpath = _pyx_paths()
    reasons = []
    if os.path.exists(cpath):
        s = open(cpath, encoding="utf-8", errors="replace").read()
        why = in_sync(s)
        if why is None:
            return s, "repo:src/pyModeS/c_common.c"
        reasons.append("repo c_common.c: " + why)
    s = gzip.open(os.path.join(core.VERIF, "vendor", "c_common.c.gz"), "rt", encoding="utf-8", errors="replace").read()
    why = in_sync(s)
    if why is None:
        return s, "vendor/c_common.c.gz"
    reasons.append("vendored: " + why)
    # the pristine Cython output plus the hand-applied edits that mirror the two 'fix:' commits touching c_common.pyx
    # (vendor/c_common.fix.patch, see DESIGN.md section 7); used only if the result is in sync with the current .pyx
    fix = os.path.join(core.VERIF, "vendor", "c_common.fix.patch")
    if os.path.exists(fix):
        tmp = tempfile.mkdtemp(prefix="pmv-cpatch-")
        try:
            src = os.path.join(tmp, "a.c")
            with open(src, "w", encoding="utf-8") as f:
                f.write(s)
            out = os.path.join(tmp, "b.c")
            r = subprocess.run(["patch", "-s", "-o", out, src, fix], capture_output=True, text=True, timeout=120)
            if r.returncode == 0 and os.path.exists(out):
                s2 = open(out, encoding="utf-8", errors="replace").read()
                why = in_sync(s2)
                if why is None:
                    return s2, "vendor/c_common.c.gz + vendor/c_common.fix.patch (hand-applied mirror of the pyx fix commits)"
                reasons.append("vendored+fix.patch: " + why)
            else:
                reasons.append("fix.patch does not apply: " + (r.stderr or r.stdout)[-200:])
        finally:
            import shutil
            shutil.rmtree(tmp, ignore_errors=True)
    return None, "; ".join(reasons)


def build():
    """returns (so_path, origin) or (None, reason). Cached by content hash under /verif/.cache."""
    csrc, origin = source()
    if csrc is None:
        return None, origin
    inc = sysconfig.get_paths()["include"]
    key = hashlib.sha256((csrc + " ".join(FLAGS) + sys.version).encode()).hexdigest()[:24]
    cache = os.path.join(core.VERIF, ".cache")
    os.makedirs(cache, exist_ok=True)
    so = os.path.join(cache, "c_common-%s%s" % (key, sysconfig.get_config_var("EXT_SUFFIX")))
    if os.path.exists(so):
        return so, origin + " (cached build)"
    tmp = tempfile.mkdtemp(prefix="pmv-cbuild-")
    try:
        cfile = os.path.join(tmp, "c_common.c")
        with open(cfile, "w", encoding="utf-8") as f:
            f.write(csrc)
        out = os.path.join(tmp, "c_common.so")
        r = subprocess.run(["clang"] + FLAGS + ["-I", inc, cfile, "-o", out], capture_output=True, text=True, timeout=900)
        if r.returncode != 0 or not os.path.exists(out):
            return None, "clang failed: " + (r.stderr or "")[-400:]
        os.replace(out, so)
    finally:
        import shutil
        shutil.rmtree(tmp, ignore_errors=True)
    return so, origin + " (built with clang -fsanitize=address,undefined)"


def install_finder(so_path):
    """serve `pyModeS.c_common` from the sanitised build (the repository tree itself is not touched)"""
    import importlib.abc
    import importlib.machinery
    import importlib.util

    class Finder(importlib.abc.MetaPathFinder):
        def find_spec(self, fullname, path, target=None):
            if fullname == "pyModeS.c_common":
                loader = importlib.machinery.ExtensionFileLoader(fullname, so_path)
                return importlib.util.spec_from_file_location(fullname, so_path, loader=loader)
            return None

    sys.meta_path.insert(0, Finder())


def worker_env(so_path, logdir):
    return {"LD_PRELOAD": ASAN_RT, "ASAN_OPTIONS": "detect_leaks=0:halt_on_error=1:abort_on_error=0:log_path=%s/asan" % logdir,
            "UBSAN_OPTIONS": "print_stacktrace=1:halt_on_error=0:log_path=%s/ubsan" % logdir, "PMV_C_SO": so_path,
            "PMV_SAN_LOGDIR": logdir}
