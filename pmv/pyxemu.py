"""placeholder, replaced below"""
def selfcheck():
    return False, "not implemented"
