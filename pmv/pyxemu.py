"""Source-level emulation of src/pyModeS/c_common.pyx (secondary engine of C15).

Cython is not installed, so an edited c_common.pyx cannot be translated to C.
This module rewrites the restricted Cython subset that file uses into Python
whose typed declarations become explicit C-semantics coercions (two's
complement wrap of long/int/char, unsigned char masking, str -> char via ord,
bint -> bool, double -> float), executes it, and serves the result as the
"C twin".  It is validated on the unchanged tree against the sanitised C build
(monitor emu_vs_c of C15).  Any construct outside the subset makes the engine
unusable (-> inconclusive), never a verdict.
"""
from __future__ import annotations

import math
import os
import re
import types

from . import core

INT_TYPES = {"long": 64, "int": 32, "Py_ssize_t": 64, "char": 8}
PASS_TYPES = {"str", "bytearray", "bytes", "object", "array.array", "list", "dict"}


class Unsupported(Exception):
    pass


def _wrap(v, bits):
    v &= (1 << bits) - 1
    return v - (1 << bits) if v >> (bits - 1) else v


def _cv(t, v):
    """convert a Python value to the C type t the way the generated code would"""
    if t in ("long", "Py_ssize_t", "int"):
        if isinstance(v, float):
            if v != v or v in (math.inf, -math.inf):
                return -(1 << (INT_TYPES[t] - 1))
            v = int(v)
        if isinstance(v, str):
            if len(v) != 1:
                raise TypeError("an integer is required")
            v = ord(v)
        return _wrap(int(v), INT_TYPES[t])
    if t == "unsigned char":
        if isinstance(v, str):
            v = ord(v)
        return int(v) & 0xFF
    if t == "char":
        if isinstance(v, str):
            if len(v) != 1:
                raise TypeError("only single character unicode strings can be converted to Py_UCS4")
            v = ord(v)
        return _wrap(int(v), 8)
    if t == "double":
        return float(v)
    if t == "bint":
        return bool(v)
    return v


class CUndefinedBehaviour(Exception):
    """the compiled module would read or write outside a buffer here (undefined behaviour: garbage, corruption or a crash)"""


class _MV:
    """typed memoryview (`cdef long[:] v = buf`) under the directives in force where it is declared.  Cython adjusts a negative
    index only under wraparound(True) and checks bounds only under boundscheck(True); with both off `v[-1]` is plain pointer
    arithmetic in front of the buffer."""

    def __init__(self, buf, ctype, wrap, check):
        if isinstance(buf, str) or not hasattr(buf, "__getitem__"):
            raise TypeError("a bytes-like object is required, not '%s'" % type(buf).__name__)
        self.buf, self.ctype, self.wrap, self.check = buf, ctype, wrap, check

    def _ix(self, i):
        if not isinstance(i, int):
            raise Unsupported("memoryview indexed with %r" % (i,))
        n = len(self.buf)
        if i < 0 and self.wrap:
            i += n
        if not 0 <= i < n:
            if self.check:
                raise IndexError("Out of bounds on buffer access (axis 0)")
            raise CUndefinedBehaviour("memoryview index %d outside the buffer of %d items under boundscheck(False)%s: the compiled "
                                      "module reads or writes foreign memory" % (i, n, "" if self.wrap else " / wraparound(False)"))
        return i

    def __getitem__(self, i):
        return self.buf[self._ix(i)]

    def __setitem__(self, i, v):
        self.buf[self._ix(i)] = _cv(self.ctype, v)

    def __len__(self):
        return len(self.buf)

    @property
    def shape(self):
        return (len(self.buf),)


def _acos(x):
    return math.acos(x) if -1.0 <= x <= 1.0 else math.nan


def _c_floor(x):
    return float(math.floor(x)) if x == x and x not in (math.inf, -math.inf) else x


def _typed(ret, args):
    def deco(f):
        def g(*a, **k):
            a = list(a)
            for idx, (nm, t) in enumerate(args):
                if idx < len(a):
                    a[idx] = _arg(t, a[idx], nm)
                elif nm in k:
                    k[nm] = _arg(t, k[nm], nm)
            r = f(*a, **k)
            if ret in INT_TYPES or ret in ("unsigned char", "double", "bint"):
                return _cv(ret, r)
            if ret == "str" and r is not None and not isinstance(r, str):
                raise TypeError("Expected str, got %s" % type(r).__name__)
            return r
        g.__name__ = f.__name__
        g.__doc__ = f.__doc__
        return g
    return deco


def _arg(t, v, nm):
    if t == "str":
        if v is not None and not isinstance(v, str):
            raise TypeError("Argument '%s' has incorrect type (expected str, got %s)" % (nm, type(v).__name__))
        return v
    if t in INT_TYPES or t in ("unsigned char", "double", "bint"):
        return _cv(t, v)
    return v


TYPE_RE = r"(?:unsigned char|unsigned int|long|int|char|double|float|bint|str|bytearray|bytes|object|Py_ssize_t|array\.array)"


def _balanced(s):
    return s.count("(") == s.count(")") and s.count("[") == s.count("]")


def _code_comment(s):
    """split a source line into (code, trailing comment) - '#' inside quotes does not start a comment"""
    q = None
    for i, ch in enumerate(s):
        if q:
            if ch == q:
                q = None
        elif ch in "\"'":
            q = ch
        elif ch == "#":
            return s[:i].rstrip(), "  " + s[i:]
    return s, ""


def transpile(src: str) -> str:
    out = ["import array", "from math import cos, fabs, pi"]
    typed = {}       # typed local names of the current function
    depth_fn = None
    lines = src.split("\n")
    # compiler directives: file-level defaults from the `# cython:` header, overridden per function by decorators
    file_dir = {"wraparound": True, "boundscheck": True}
    for raw in lines:
        if raw.strip().startswith("# cython:"):
            for k_, v_ in re.findall(r"(wraparound|boundscheck)\s*=\s*(True|False)", raw):
                file_dir[k_] = v_ == "True"
    pending = {}
    cur_dir = dict(file_dir)
    for raw in lines:
        line, trailing = _code_comment(raw.rstrip())
        if not line.strip():
            line, trailing = raw.rstrip(), ""
        s = line.strip()
        ind = line[: len(line) - len(line.lstrip())]
        if s.startswith("# cython:") or s.startswith("cimport ") or (s.startswith("from ") and " cimport " in s) or s.startswith("@cython."):
            dm = re.match(r"@cython\.(wraparound|boundscheck)\(\s*(True|False)\s*\)\s*$", s)
            if dm:
                pending[dm.group(1)] = dm.group(2) == "True"
            out.append(ind + "pass" if ind else "")
            continue
        if re.match(r"with\s+cython\.", s):
            raise Unsupported("directive block %r" % s)
        if re.match(r"(cdef|cpdef)\s+(class|struct|enum|extern|union)\b", s) or s.startswith("ctypedef") or "nogil" in s or \
                re.search(r"\bsizeof\(|&\w|\w\s*\*\s*\w+\s*=|->", s) and s.startswith("cdef"):
            raise Unsupported("construct outside the emulated subset: %r" % s)
        # function headers
        m = re.match(r"^(\s*)(cdef|cpdef|def)\s+(?:inline\s+)?(?:(%s)\s+)?(\w+)\((.*)\)\s*(?:except\s*[^:]+)?:\s*$" % TYPE_RE, line)
        if m and (m.group(2) != "def" or m.group(3) is None):
            ind0, kind, ret, name, args = m.groups()
            typed = {}
            cur_dir = dict(file_dir, **pending)
            pending = {}
            alist, names = [], []
            for a in [x.strip() for x in args.split(",") if x.strip()]:
                am = re.match(r"^(?:(%s)\s+)?(\w+)\s*(=\s*.+)?$" % TYPE_RE, a)
                if not am:
                    raise Unsupported("argument %r of %s" % (a, name))
                t, nm, dflt = am.groups()
                if dflt == "=*":
                    dflt = None
                names.append(nm + (dflt or ""))
                alist.append((nm, t or "object"))
                if t:
                    typed[nm] = t
            if kind != "def":
                out.append("%s@_typed(%r, %r)" % (ind0, ret or "object", alist))
            out.append("%sdef %s(%s):" % (ind0, name, ", ".join(names)))
            continue
        if s.startswith(("cdef ", "cpdef ")) and s.endswith(":"):
            raise Unsupported("unparsed declaration %r" % s)
        # local / module-level declarations
        m = re.match(r"^(\s*)cdef\s+(%s)\s*(\[[^\]]*\])?\s+(\w+)\s*=\s*(.+)$" % TYPE_RE, line)
        if m:
            ind0, t, arr, nm, expr = m.groups()
            if arr is not None:
                if arr == "[:]":
                    # memoryview: a view of the buffer, indexed under the directives of the enclosing function
                    out.append("%s%s = _MV(%s, %r, %r, %r)" % (ind0, nm, expr, t, cur_dir["wraparound"], cur_dir["boundscheck"]))
                else:
                    out.append("%s%s = list(%s)" % (ind0, nm, expr))    # fixed-size C array initialised from a sequence
                continue
            if t in PASS_TYPES or not _balanced(expr):
                if t not in PASS_TYPES:
                    raise Unsupported("multi-line initialiser of a numeric local: %r" % s)
                out.append("%s%s = %s" % (ind0, nm, expr))
            else:
                typed[nm] = t
                out.append("%s%s = _cv(%r, %s)" % (ind0, nm, t, expr))
            continue
        m = re.match(r"^(\s*)cdef\s+(%s)\s+([\w\s,]+)$" % TYPE_RE, line)
        if m:
            ind0, t, nms = m.groups()
            for nm in [x.strip() for x in nms.split(",")]:
                typed[nm] = t
            out.append(ind0 + "pass")
            continue
        m = re.match(r"^(\s*)cdef\s+(\w+)\s*=\s*(.+)$", line)   # untyped cdef
        if m:
            out.append("%s%s = %s" % (m.group(1), m.group(2), m.group(3)))
            continue
        if s.startswith("cdef "):
            raise Unsupported("declaration %r" % s)
        # casts
        line = re.sub(r"<\s*(%s)\s*>\s*([\w.]+\([^()]*\))" % TYPE_RE, lambda mm: "_cv(%r, %s)" % (mm.group(1), mm.group(2)), line)
        if re.search(r"<\s*%s\s*>" % TYPE_RE, line):
            raise Unsupported("cast in %r" % s)
        # assignments to typed numeric locals
        m = re.match(r"^(\s*)(\w+)\s*(\+|-|\*|//|%|\^|\||&|<<|>>)?=\s*(.+)$", line)
        if m and m.group(2) in typed and typed[m.group(2)] not in PASS_TYPES and _balanced(m.group(4)) and "==" not in line[: line.index("=") + 2]:
            ind0, nm, op, expr = m.groups()
            t = typed[nm]
            if op:
                out.append("%s%s = _cv(%r, %s %s (%s))" % (ind0, nm, t, nm, op, expr))
            else:
                out.append("%s%s = _cv(%r, %s)" % (ind0, nm, t, expr))
            continue
        out.append(line)
    code = "\n".join(out)
    code = code.replace("PyBytes_GET_SIZE(", "len(").replace("PyByteArray_GET_SIZE(", "len(")
    code = re.sub(r"(?<![\w.])acos\(", "_acos(", code)
    code = re.sub(r"(?<![\w.])c_floor\(", "_c_floor(", code)
    return code


EXPECTED = ["hex2bin", "bin2int", "hex2int", "bin2hex", "df", "crc", "floor", "icao", "is_icao_assigned", "typecode", "cprNL", "idcode",
            "squawk", "altcode", "altitude", "gray2alt", "data", "allzeros", "wrongstatus"]


def load(path=None):
    path = path or os.path.join(core.REPO, "src", "pyModeS", "c_common.pyx")
    src = open(path, encoding="utf-8").read()
    code = transpile(src)
    mod = types.ModuleType("pyModeS.c_common")
    mod.__dict__.update({"_MV": _MV, "_cv": _cv, "_typed": _typed, "_acos": _acos, "_c_floor": _c_floor, "__file__": path + " (emulated)"})
    exec(compile(code, path + ":emulated", "exec"), mod.__dict__)
    missing = [n for n in EXPECTED if not callable(mod.__dict__.get(n))]
    if missing:
        raise Unsupported("functions missing after translation: %s" % missing)
    return mod


def selfcheck():
    try:
        m = load()
        # smoke: one call of every function on a benign input must not fail for emulator reasons
        m.hex2bin("8D"), m.bin2int("101"), m.hex2int("FF"), m.df("8D406B902015A678D4D220AA4BDA"), m.crc("8D406B902015A678D4D220AA4BDA")
        m.floor(3.6), m.icao("8D406B902015A678D4D220AA4BDA"), m.typecode("8D406B902015A678D4D220AA4BDA"), m.cprNL(10.0)
        return True, "ok"
    except Unsupported as e:
        return False, str(e)
    except SyntaxError as e:
        return False, "translated source does not compile: %s" % e
    except Exception as e:  # a genuine failure of the edited module on a benign call is a finding for the monitors, not here
        return True, "smoke call raised %s" % type(e).__name__


def select(cmod):
    """make `cmod` the common module of every loaded pyModeS module (library-level C configuration)"""
    import sys
    import pyModeS
    old = pyModeS.common
    for name, mod in list(sys.modules.items()):
        if mod is None or not name.startswith("pyModeS"):
            continue
        d = getattr(mod, "__dict__", {})
        if d.get("common") is old:
            d["common"] = cmod
    # what `from .c_common import *` in pyModeS/__init__.py would have bound: every public function the .pyx defines (or its
    # __all__ if it has one) - whether or not the Python twin exported the same name
    public = cmod.__dict__.get("__all__") or [k for k in EXPECTED if callable(cmod.__dict__.get(k))]
    for k in public:
        pyModeS.__dict__[k] = cmod.__dict__[k]
    pyModeS.common = cmod
