"""Canonical, JSON-able rendering of decoder results (shared by both configurations of C15/M2)."""
import math


def canon(v):
    if v is None or isinstance(v, (bool, str)):
        return v
    tn = type(v).__name__
    if tn == "bool_":
        return bool(v)
    if isinstance(v, int):
        return v
    if isinstance(v, float) or tn in ("float64", "float32"):
        v = float(v)
        if math.isnan(v):
            return "nan"
        if math.isinf(v):
            return "inf" if v > 0 else "-inf"
        return repr(v)
    if tn.startswith("int") or tn.startswith("uint"):
        return int(v)
    if isinstance(v, (tuple, list)):
        return [canon(x) for x in v]
    if isinstance(v, dict):
        return {str(k): canon(x) for k, x in sorted(v.items(), key=lambda kv: str(kv[0]))}
    if tn == "ndarray":
        return [canon(x) for x in v.tolist()]
    return "<%s>" % tn


def run_calls(table, calls):
    """table: name -> callable; calls: [[name, args], ...] -> list of ['ok', canon] | ['exc', type]"""
    out = []
    for name, args in calls:
        try:
            out.append(["ok", canon(table[name](*args))])
        except BaseException as e:  # noqa
            if isinstance(e, (KeyboardInterrupt, SystemExit)) or type(e).__name__ == "CaseTimeout":
                raise
            out.append(["exc", type(e).__name__])
    return out
