"""Cold-start concurrency probe (run as a script in a FRESH interpreter by pmv/replay.py).

usage: python -m pmv.coldstart <calls.pkl> <focus index> <nthreads> [strict|ambient|closed|yield]

calls.pkl holds [(module, attribute, args, kwargs, repr of the result when called alone)].  The library is imported, N
threads are released on a barrier and make their very first calls at the same moment - first the recorded calls of one
function (the focus), then everything else in thread-specific order.  A lazily initialised table / cache that is
published before it is complete only shows in these first microseconds of a process.  Prints a JSON list of mismatches.
"""
import importlib
import json
import pickle
import sys
import threading


AMBIENT = dict(threshold=5, edgeitems=1, linewidth=12, precision=2, sign="+", floatmode="fixed", suppress=True)
DEFAULTS = dict(threshold=1000, edgeitems=3, linewidth=75, precision=8, sign="-", floatmode="maxprec", suppress=False)


def main():
    path, focus, nthreads = sys.argv[1], int(sys.argv[2]), int(sys.argv[3])
    if len(sys.argv) > 4 and sys.argv[4] == "strict":
        # the host program set its numeric policy BEFORE it ever touched the library: floating-point anomalies raise,
        # runtime warnings are errors (a lazily built table is then built under that policy)
        import warnings
        import numpy as np
        np.seterr(all="raise")
        warnings.simplefilter("error", RuntimeWarning)
    ambient = len(sys.argv) > 4 and sys.argv[4] == "ambient"
    if ambient:
        # the host program configured its own output formatting / decimal arithmetic BEFORE it imported the library: a table
        # built at import time (or on first use) through str() / repr() of numpy values freezes whatever was in force then
        import decimal
        import numpy as np
        np.set_printoptions(**AMBIENT)
        decimal.DefaultContext.prec = 5
        decimal.getcontext().prec = 5
    out_fd = None
    if len(sys.argv) > 4 and sys.argv[4] == "closed":
        # a detached worker: its standard streams are closed BEFORE the library is imported and stay closed (a one-time notice
        # printed at first use of some path fails there every time); the verdict goes out through a duplicate of fd 1
        import io
        import os
        out_fd = os.dup(1)
        cs_ = io.StringIO()
        cs_.close()
        sys.stdout = sys.stderr = cs_
    raw = pickle.load(open(path, "rb"))
    calls = []
    for mod, attr, a, k, want in raw:
        try:
            calls.append((getattr(importlib.import_module(mod), attr), a, k, want, mod + "." + attr))
        except Exception:
            pass
    if out_fd is not None:
        # (the two aliases documented to emit a DeprecationWarning, and tell(), have something to write: not asked here)
        calls = [c for c in calls if c[4].split(".")[-1] not in ("alt40mcp", "alt40fms", "tell")]
    if focus % 2 == 1:
        # before anything else the host program uses the exported conversion helpers on its own short strings (an address
        # nibble, a flag field): all-0/1 digit strings are valid hex AND valid binary - a memo shared by hex2int and bin2int
        # that is keyed by the string alone is poisoned from here on
        try:
            import pyModeS
            for s_ in ("100000", "000010", "000001", "110000", "101", "001", "11", "10", "1", "0", "10000", "0101", "100", "010000", "00100000", "11111111"):
                pyModeS.common.hex2int(s_)
            for s_ in ("0001", "0010", "1000", "00010000"):
                pyModeS.common.bin2hex(s_)
            # ... and hex2bin on zero-padded spellings of one-byte values ("0010" has the value of "10" but twice its width)
            for s_ in ("0010", "0020", "0008", "008D", "00A0", "0028", "0", "00", "000", "0000", "0001", "1", "01", "000010"):
                pyModeS.common.hex2bin(s_)
        except Exception:
            pass
    if not calls:
        if out_fd is not None:
            import os
            os.write(out_fd, b"[]\n")
        else:
            print("[]")
        return
    names = sorted(set(c[4] for c in calls))
    fname = names[focus % len(names)]
    first = [c for c in calls if c[4] == fname]
    rest = [c for c in calls if c[4] != fname]
    bad = []
    if focus % 3 == 2:
        # the very first calls of the process are made near the stack limit (a recursive caller): some die of RecursionError
        # half-way through whatever they were setting up - a lazily built table that is published before it is filled stays
        # empty for the rest of the process
        def _deep(k_, thunk):
            return thunk() if k_ <= 0 else _deep(k_ - 1, thunk)
        depth = 0
        fr_ = sys._getframe()
        while fr_ is not None:
            depth += 1
            fr_ = fr_.f_back
        room = sys.getrecursionlimit() - depth - 2
        some = []
        for nm_ in names:
            some += [c for c in calls if c[4] == nm_][:2]
        for h in tuple(range(0, 22)) + (24, 28, 34):
            for fn, a, k, want, nm in some:
                try:
                    _deep(room - h, lambda: fn(*a, **k))
                except BaseException:  # noqa
                    pass
    barrier = threading.Barrier(nthreads)
    sys.setswitchinterval(1e-6)
    if len(sys.argv) > 4 and sys.argv[4] == "yield":
        # yield injection: every thread gives the processor away at random lines INSIDE the library's code (a line trace function
        # that sleeps for 0 s releases the interpreter lock), so that a window of two lines - clear() ... extend() on a shared
        # list, "not empty" ... "complete" on a table - is as wide as a thread switch instead of a few nanoseconds
        import os
        import random
        import time
        lib = os.path.dirname(os.path.realpath(importlib.import_module("pyModeS").__file__)) + os.sep
        yr = random.Random(focus)

        def _yl(frame, event, arg):
            if event == "line" and yr.random() < 0.3:
                time.sleep(0)
            return _yl

        def _yg(frame, event, arg):
            return _yl if event == "call" and frame.f_code.co_filename.startswith(lib) else None
        threading.settrace(_yg)

    # one round per function, the focus function first: before each round the threads meet on the barrier again, so that EVERY
    # function gets its very first calls of the process from all threads at the same moment (the calls of a round are the
    # recorded calls of that function, each thread starting at another one)
    fi = names.index(fname)
    rounds = []
    for nm_ in names[fi:] + names[:fi]:
        grp = [c for c in calls if c[4] == nm_]
        if grp:
            # thread t starts at the t-th call of the round: another eight "very first calls" in every fresh interpreter
            import random as _rnd
            import zlib as _zl
            _rnd.Random(focus * 7919 + _zl.crc32(nm_.encode())).shuffle(grp)
            # ... with one call of every KIND of outcome among them (refusal / None / zero / whole number / fraction / other): the
            # rare kinds are the ones a half-built dispatch table has not got yet
            seen_k, head, tail_ = set(), [], []
            for c_ in grp:
                w_ = c_[3]
                k_ = (w_[:6], w_.endswith(" None)"), w_.endswith(" 0)") or w_.endswith(" 0.0)"), "." in w_[6:], w_[7:8])
                (tail_ if k_ in seen_k else head).append(c_)
                seen_k.add(k_)
            grp = head + tail_
            rounds.append(grp)

    def work(t):
        if ambient:
            np.set_printoptions(**AMBIENT)   # numpy >= 2 keeps the options per context: a new thread starts from the defaults
        for grp in rounds:
            try:
                barrier.wait(timeout=60)
            except threading.BrokenBarrierError:
                return
            if run_seq(t, grp[t % len(grp):] + grp[:t % len(grp)]):
                barrier.abort()
                return

    def run_seq(t, seq):
        for fn, a, k, want, nm in seq:
            try:
                r = ("ok", fn(*a, **k))
            except BaseException as e:  # noqa
                r = ("exc", type(e).__name__, str(e)[:200])
            if ambient:
                with np.printoptions(**DEFAULTS):   # the comparison itself is made under the options the parent recorded with
                    got = repr(r)
            else:
                got = repr(r)
            if got != want:
                bad.append({"function": nm, "args": repr(a)[:200], "alone": want[:200], "cold_concurrent": got[:200]})
                return True
        return False

    ths = [threading.Thread(target=work, args=(t,)) for t in range(nthreads)]
    for th in ths:
        th.start()
    for th in ths:
        th.join(60)
    if out_fd is not None:
        import os
        os.write(out_fd, (json.dumps(bad[:5]) + "\n").encode())
    else:
        print(json.dumps(bad[:5]))


if __name__ == "__main__":
    main()
