"""pmv - runtime monitors for junzis/pyModeS (see /verif/DESIGN.md)."""
