"""Volume under threads: several threads push far more DISTINCT messages through a function than a 16/17-bit bounded memo
holds, all at once.  An unlocked bounded cache (FIFO / LRU with `del d[k]`, eviction of "the oldest quarter") is exact
single-threaded at any volume and exact under threads until it is full; only both together make two threads evict the same
key.  Judged: no exception escapes, and a sample of results equals the oracle."""
from __future__ import annotations

import random
import sys
import threading

from .probe import call


def run(ctx, fns, make_msg, oracle, total=144000, nthreads=4, key="volume-under-threads"):
    """fns: [(name, callable(msg))]; make_msg(rng) -> msg; oracle(name, msg) -> expected value (called for ~0.5 % of the calls)"""
    bad = []
    lock = threading.Lock()
    per = total // nthreads
    counts = [0] * nthreads
    hot = [None] * nthreads

    def work(t):
        rng = random.Random((ctx.seed * 7919 + ctx.shard * 131 + t) & 0xFFFFFFFF)
        for k in range(per):
            if bad:
                return
            msg = make_msg(rng)
            if k % 7 == 3 and hot[(t + 1) % nthreads] is not None:
                msg = hot[(t + 1) % nthreads]     # ask for what the neighbour thread is asking for right now (first request, twice at once)
            hot[t] = msg
            for name, fn in fns:
                try:
                    v = fn(msg)
                except BaseException as e:  # noqa
                    with lock:
                        bad.append((name, msg, "raised %s: %s" % (type(e).__name__, str(e)[:120]), None))
                    return
                counts[t] += 1
                if k % 211 == 0:
                    exp = oracle(name, msg)
                    if v != exp:
                        with lock:
                            bad.append((name, msg, repr(v)[:80], repr(exp)[:80]))
                        return

    old = sys.getswitchinterval()
    sys.setswitchinterval(1e-6)
    try:
        ths = [threading.Thread(target=work, args=(t,), daemon=True) for t in range(nthreads)]
        for th in ths:
            th.start()
        for th in ths:
            th.join(timeout=600)
    finally:
        sys.setswitchinterval(old)
    ctx.ev(sum(counts))
    ctx.hit("distinct_messages_pushed_through_by_4_threads", sum(counts) // max(1, len(fns)))
    for name, msg, got, exp in bad[:3]:
        ctx.violation("%s:%s" % (key, name.split(".")[-1]), function=name, message=msg, observed=got, expected=exp, threads=nthreads,
                      distinct_messages_so_far=sum(counts) // max(1, len(fns)))
    return not bad
