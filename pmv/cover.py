"""Branch-arm observer (sys.monitoring, Python 3.12): which arms of the anchored functions did the workload execute?

Enabled in shard 0 only (about 6x slower on the instrumented functions).  Reports, per function, arms seen / arms present
in the bytecode and the source lines of the unseen arms; the result goes into the evidence (coverage.branch_arms).
It is an observer, not an oracle: it never produces a verdict by itself.
"""
from __future__ import annotations

import dis
import importlib
import sys

TOOL = 3  # sys.monitoring tool id (coverage slot is 1; use a free one)
_state = {"codes": {}, "seen": set(), "on": False}

COND = {"POP_JUMP_IF_TRUE", "POP_JUMP_IF_FALSE", "POP_JUMP_IF_NONE", "POP_JUMP_IF_NOT_NONE", "FOR_ITER"}


def _resolve(spec):
    modname, qual = spec.split(":")
    obj = importlib.import_module(modname)
    for part in qual.split("."):
        obj = getattr(obj, part)
    obj = getattr(obj, "__wrapped__", obj)
    code = getattr(obj, "__code__", None)
    return code


def _arms(code):
    """all (offset, destination offset) pairs of conditional branches of a code object"""
    ins = list(dis.get_instructions(code))
    arms = {}
    for k, i in enumerate(ins):
        if i.opname in COND:
            nxt = ins[k + 1].offset if k + 1 < len(ins) else None
            # skip CACHE-less: dis already hides caches; fall-through is the next real instruction
            arms[(i.offset, i.argval)] = i.positions.lineno if i.positions else None
            if nxt is not None:
                arms[(i.offset, nxt)] = i.positions.lineno if i.positions else None
    return arms


def start(specs):
    mon = getattr(sys, "monitoring", None)
    if mon is None or not specs:
        return False
    try:
        mon.use_tool_id(TOOL, "pmv-branch-observer")
    except ValueError:
        return False
    for spec in specs:
        try:
            code = _resolve(spec)
        except Exception:
            code = None
        if code is None:
            continue
        _state["codes"][code] = (spec, _arms(code))
        mon.set_local_events(TOOL, code, mon.events.BRANCH)

    def on_branch(code, src, dst):
        _state["seen"].add((code, src, dst))

    mon.register_callback(TOOL, mon.events.BRANCH, on_branch)
    _state["on"] = True
    return True


def pause():
    mon = sys.monitoring
    for code in _state["codes"]:
        mon.set_local_events(TOOL, code, 0)


def resume():
    mon = sys.monitoring
    for code in _state["codes"]:
        mon.set_local_events(TOOL, code, mon.events.BRANCH)


def report():
    if not _state["on"]:
        return None
    out = {}
    for code, (spec, arms) in _state["codes"].items():
        seen = {(s, d) for (c, s, d) in _state["seen"] if c is code}
        # the BRANCH event reports the destination actually taken; map onto the static arms (fall-through offsets can be
        # reported past inline caches, so match by nearest static destination at or before the reported one)
        hit = set()
        for (s, d) in seen:
            cands = [a for a in arms if a[0] == s]
            if not cands:
                continue
            exact = [a for a in cands if a[1] == d]
            if exact:
                hit.add(exact[0])
            else:
                best = min(cands, key=lambda a: abs(a[1] - d))
                hit.add(best)
        out[spec] = {"arms": [[a[0], a[1], arms[a]] for a in sorted(arms)], "hit": sorted([list(h) for h in hit])}
    return out


def merge_reports(reports):
    """reports: list of report() dicts from several shards -> {spec: {arms, seen, unseen_lines}}"""
    acc = {}
    for r in reports:
        for spec, v in (r or {}).items():
            a = acc.setdefault(spec, {"arms": {}, "hit": set()})
            for s_, d_, ln in v["arms"]:
                a["arms"][(s_, d_)] = ln
            for s_, d_ in v["hit"]:
                a["hit"].add((s_, d_))
    out = {}
    for spec, a in acc.items():
        unseen = sorted({ln for k, ln in a["arms"].items() if k not in a["hit"] and ln is not None})
        out[spec] = {"arms": len(a["arms"]), "seen": len(a["hit"] & set(a["arms"])), "unseen_lines": unseen[:40]}
    return out
