"""Helper process of C15/M2: the *Python* configuration of pyModeS (no compiled common module on the import path).
Reads JSON lines {"calls": [[name, args], ...]} or {"history": {...}} on stdin, answers one JSON line each."""
import contextlib
import io
import json
import sys


def main():
    from pmv import core
    core.bootstrap_repo()
    import pyModeS
    assert pyModeS.common.__name__.endswith("py_common"), pyModeS.common.__name__
    from pmv import canon
    from pmv.props import C14, C15
    table = C15.call_table()
    sys.stdout.write(json.dumps({"ready": pyModeS.common.__name__}) + "\n")
    sys.stdout.flush()
    for line in sys.stdin:
        req = json.loads(line)
        if "calls" in req:
            with contextlib.redirect_stdout(io.StringIO()):
                res = canon.run_calls(table, req["calls"])
            sys.stdout.write(json.dumps({"results": res}) + "\n")
        elif "history" in req:
            sys.stdout.write(json.dumps({"table": C15.play_history(req["history"])}) + "\n")
        sys.stdout.flush()


if __name__ == "__main__":
    main()
