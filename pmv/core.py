"""Monitor context, verdict discipline, evidence and known-finding handling.

A property module (pmv/props/Cxx.py) provides

    LEVEL_RULE   : str, how cases are generated / what is non-trivial
    MONITORS     : {name: fn(ctx, case)}   deterministic oracle over one case
    cases(ctx)   : generator of (monitor_name, case) for ctx.tier/seed/shard
    REQUIRED     : list of coverage keys that must be observed (else inconclusive)
    ASSUMPTIONS  : list of str

The runner (./check) fans shards out to worker subprocesses, merges the
per-shard results, classifies violations against KNOWN_FINDINGS.txt and writes
evidence/<id>.json.
"""
from __future__ import annotations

import hashlib
import json
import os
import random
import sys
import time
import traceback

VERIF = os.path.dirname(os.path.dirname(os.path.abspath(__file__)))
REPO = os.environ.get("PMV_REPO", "/repo")


def bootstrap_repo():
    """Make `import pyModeS` resolve to $PMV_REPO/src (working tree, not a copy)."""
    src = os.path.join(REPO, "src")
    if src not in sys.path:
        sys.path.insert(0, src)
    deps = os.path.join(VERIF, ".deps")
    if os.path.isdir(deps) and deps not in sys.path:
        sys.path.append(deps)
    if os.environ.get("PMV_C_SO"):
        # C configuration (C15): serve pyModeS.c_common from the sanitised build before pyModeS is imported
        from . import cbuild
        cbuild.install_finder(os.environ["PMV_C_SO"])
    import pyModeS  # noqa

    f = os.path.realpath(pyModeS.__file__)
    if not f.startswith(os.path.realpath(src) + os.sep):
        raise RuntimeError("pyModeS imported from %s, expected under %s" % (f, src))
    return pyModeS


def h64(obj) -> int:
    s = json.dumps(obj, sort_keys=True, default=str).encode()
    return int.from_bytes(hashlib.blake2b(s, digest_size=8).digest(), "big")


class Rng(random.Random):
    """random.Random plus fill(w): a w-bit value for "all other bits of the frame".  80 % uniform, 20 % structured
    (all ones, all zeros, a long run of ones at either end, one or two bits set / clear) - uniform bits practically never
    produce a run of 20 equal bits, and several realistic arithmetic slips (float rounding, carries, sign extension)
    only show on such runs."""

    def fill(self, w):
        if w < 6:
            return self.getrandbits(w)
        u = self.random()
        if u < 0.80:
            return self.getrandbits(w)
        k = int((u - 0.80) / 0.20 * 6)
        ones = (1 << w) - 1
        if k == 0:
            return ones
        if k == 1:
            return 0
        if k == 2:   # run of ones at the top, random or zero below
            n = self.randrange(1, w + 1)
            low = self.getrandbits(w - n) if (w - n) and self.random() < 0.5 else 0
            return ((ones >> (w - n)) << (w - n)) | low
        if k == 3:   # run of ones at the bottom, random or zero above
            n = self.randrange(1, w + 1)
            high = self.getrandbits(w - n) if (w - n) and self.random() < 0.5 else 0
            return (high << n) | (ones >> (w - n))
        if k == 4:
            return (1 << self.randrange(w)) | (1 << self.randrange(w))
        return ones & ~((1 << self.randrange(w)) | (1 << self.randrange(w)))


class Ctx:
    """Per-shard monitor state. Everything here is plain data so that shards merge."""

    MAX_WITNESS_PER_KEY = 5
    MAX_SAMPLES = 6

    def __init__(self, prop, tier, seed, shard=0, nshards=1):
        self.prop = prop
        self.tier = tier
        self.seed = seed
        self.shard = shard
        self.nshards = nshards
        self.rng = Rng((seed * 1000003 + shard * 7919 + 17) & 0xFFFFFFFF)
        self.evaluations = 0
        self.cover = {}  # key -> count
        self.distinct = set()  # 64-bit hashes of non-trivial cases
        self.viol = {}  # key -> {"count": n, "witnesses": [...]}
        self.samples = []
        self.ambiguous = 0
        self.notes = {}
        self.monitor_evals = {}
        self._cur = None

    # --- partitioning helpers
    def mine(self, i: int) -> bool:
        return i % self.nshards == self.shard

    def share(self, n: int) -> int:
        """this shard's part of n random cases"""
        q, r = divmod(n, self.nshards)
        return q + (1 if self.shard < r else 0)

    # --- recording
    def ev(self, n=1):
        self.evaluations += n

    def hit(self, key, n=1):
        self.cover[key] = self.cover.get(key, 0) + n

    def nontrivial(self, obj):
        self.distinct.add(obj if isinstance(obj, int) else h64(obj))

    def sample(self, obj):
        if len(self.samples) < self.MAX_SAMPLES:
            self.samples.append(obj)

    def amb(self, n=1):
        self.ambiguous += n

    def violation(self, key, **witness):
        v = self.viol.setdefault(key, {"count": 0, "witnesses": []})
        v["count"] += 1
        if len(v["witnesses"]) < self.MAX_WITNESS_PER_KEY:
            w = dict(witness)
            if self._cur is not None:
                w.setdefault("monitor", self._cur[0])
                w.setdefault("case", self._cur[1])
            v["witnesses"].append(w)

    def note_max(self, key, val):
        if val is None:
            return
        if key not in self.notes or val > self.notes[key]:
            self.notes[key] = val

    def dump(self):
        return {
            "evaluations": self.evaluations,
            "cover": self.cover,
            "distinct": sorted(self.distinct),
            "viol": self.viol,
            "samples": self.samples,
            "ambiguous": self.ambiguous,
            "notes": self.notes,
            "monitor_evals": self.monitor_evals,
        }


CASE_TIMEOUT_S = int(os.environ.get("PMV_CASE_TIMEOUT", "300"))


class CaseTimeout(BaseException):
    pass


def _on_alarm(signum, frame):
    raise CaseTimeout()


try:
    import signal
    signal.signal(signal.SIGALRM, _on_alarm)
    _alarm = True
except Exception:  # not in the main thread / not on this platform
    _alarm = False

OBSERVE_QUOTA = 25   # cases per monitor (per shard) executed under the branch-arm observer ...
OBSERVE_SECONDS = 0.7  # ... and at most this much wall time per monitor and shard


def run_cases(mod, ctx, only=None, observer=None):
    """Drive the generator of a property module through its monitors."""
    mons = mod.MONITORS
    observing = observer is not None
    obs_time = {}
    for name, case in mod.cases(ctx):
        if observer is not None:
            # the observer costs ~6x on the instrumented functions: watch the first cases of every monitor only
            # (directed cases are generated first), then switch it off for that monitor
            want = ctx.monitor_evals.get(name, 0) < OBSERVE_QUOTA and obs_time.get(name, 0.0) < OBSERVE_SECONDS \
                and name not in getattr(mod, "NO_OBSERVE", ())
            if want != observing:
                (observer.resume if want else observer.pause)()
                observing = want
        if only and name not in only:
            continue
        fn = mons[name]
        ctx._cur = (name, case)
        ctx.monitor_evals[name] = ctx.monitor_evals.get(name, 0) + 1
        if ctx.monitor_evals[name] == 1 and len(ctx.samples) < 3:
            # always show at least one actual case per monitor (the monitors add richer samples at random)
            ctx.samples.append({"monitor": name, "case": json.loads(json.dumps(case, default=str)) if len(repr(case)) < 600
                                else repr(case)[:600] + "..."})
        t_obs = time.time() if observing else None
        try:
            if _alarm:
                signal.alarm(CASE_TIMEOUT_S)   # a hanging case (e.g. a parser that never returns) must not eat the watchdog
            fn(ctx, case)
            if _alarm:
                signal.alarm(0)
            if t_obs is not None:
                obs_time[name] = obs_time.get(name, 0.0) + time.time() - t_obs
        except CaseTimeout:
            ctx.cover["case_timeout"] = ctx.cover.get("case_timeout", 0) + 1
            ctx.cover["harness_error"] = ctx.cover.get("harness_error", 0) + 1
            ctx.notes.setdefault("harness_errors", [])
            if len(ctx.notes["harness_errors"]) < 5:
                ctx.notes["harness_errors"].append({"monitor": name, "case": repr(case)[:300],
                                                    "exc": "case exceeded %d s (inconclusive, not a verdict)" % CASE_TIMEOUT_S})
        except Exception as e:  # a monitor bug or an escaped exception of the SUT
            if _alarm:
                signal.alarm(0)
            # the monitors catch SUT exceptions themselves where the property
            # speaks about them; anything arriving here is a harness error
            ctx.cover["harness_error"] = ctx.cover.get("harness_error", 0) + 1
            ctx.notes.setdefault("harness_errors", [])
            if len(ctx.notes["harness_errors"]) < 5:
                ctx.notes["harness_errors"].append(
                    {"monitor": name, "case": repr(case)[:400],
                     "exc": "".join(traceback.format_exception_only(type(e), e)).strip(),
                     "tb": traceback.format_exc()[-1500:]}
                )
        ctx._cur = None


# ----------------------------------------------------------------------------
# known findings

def load_known(path=None):
    """KNOWN_FINDINGS.txt: lines
         known: property=<id> key=<mechanism> <what fails>
         fixed: property=<id> <commit> key=<mechanism> <what failed>
    Only 'known' lines suppress anything."""
    path = path or os.path.join(VERIF, "KNOWN_FINDINGS.txt")
    known = {}
    if not os.path.exists(path):
        return known
    for line in open(path, encoding="utf-8"):
        line = line.strip()
        if not line.startswith("known:"):
            continue
        toks = line.split()
        prop = key = None
        rest = []
        for t in toks[1:]:
            if t.startswith("property=") and prop is None:
                prop = t.split("=", 1)[1]
            elif t.startswith("key=") and key is None:
                key = t.split("=", 1)[1]
            else:
                rest.append(t)
        if prop and key:
            known[(prop, key)] = " ".join(rest)
    return known


def merge(shards):
    tot = {"evaluations": 0, "cover": {}, "distinct": set(), "viol": {}, "samples": [],
           "ambiguous": 0, "notes": {}, "monitor_evals": {}}
    for s in shards:
        tot["evaluations"] += s["evaluations"]
        tot["ambiguous"] += s["ambiguous"]
        for k, v in s["cover"].items():
            tot["cover"][k] = tot["cover"].get(k, 0) + v
        for k, v in s["monitor_evals"].items():
            tot["monitor_evals"][k] = tot["monitor_evals"].get(k, 0) + v
        tot["distinct"].update(s["distinct"])
        for k, v in s["viol"].items():
            t = tot["viol"].setdefault(k, {"count": 0, "witnesses": []})
            t["count"] += v["count"]
            for w in v["witnesses"]:
                if len(t["witnesses"]) < Ctx.MAX_WITNESS_PER_KEY:
                    t["witnesses"].append(w)
        for smp in s["samples"]:
            if len(tot["samples"]) < Ctx.MAX_SAMPLES:
                tot["samples"].append(smp)
        for k, v in s["notes"].items():
            if isinstance(v, (int, float)) and not isinstance(v, bool):
                if k not in tot["notes"] or v > tot["notes"][k]:
                    tot["notes"][k] = v
            elif isinstance(v, list):
                tot["notes"].setdefault(k, [])
                tot["notes"][k].extend(v[: max(0, 8 - len(tot["notes"][k]))])

            else:
                tot["notes"].setdefault(k, v)
    return tot


def repo_state():
    import subprocess

    try:
        head = subprocess.run(["git", "-C", REPO, "rev-parse", "--short", "HEAD"],
                              capture_output=True, text=True, timeout=20).stdout.strip()
        diff = subprocess.run(["git", "-C", REPO, "diff", "HEAD", "--", "src"],
                              capture_output=True, timeout=20).stdout
        dirty = hashlib.sha1(diff).hexdigest()[:10] if diff else "clean"
        return "%s/%s" % (head, dirty)
    except Exception:
        return "unknown"
