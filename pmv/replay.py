"""Replay phases run by every worker after its monitors (no per-property code).

While the monitors run, probe.call() records a sample of the calls they make to the pure, module-level decoder functions
(function, deep-copied arguments, repr of the result).  The monitors judge those results against the reference models.
Afterwards the same calls are repeated

 1. single-threaded in a shuffled order  - a result that changes is a dependency on call history (memo, shared buffer);
 2. from several threads at once with a tiny switch interval - a result that changes is lost re-entrancy (a module-level
    scratch buffer or a half-updated cache shared between concurrent callers).

Both are relations on the real code, independent of any model: f(x) must be f(x) whoever else is calling.
"""
from __future__ import annotations

import os
import random
import sys
import threading
import time

from . import probe


def _name(fn):
    inner = fn
    for _ in range(4):   # a guard decorator's wrapper: name the function it guards
        cells = [c.cell_contents for c in (getattr(inner, "__closure__", None) or ()) if callable(getattr(c, "cell_contents", None))]
        if getattr(inner, "__name__", "") in ("wrapper", "inner", "wrapped") and cells:
            inner = cells[0]
        else:
            break
    return "%s.%s" % (getattr(inner, "__module__", "?"), getattr(inner, "__qualname__", repr(inner)))


def run(ctx, tier):
    rec = probe.recorded()
    probe.RECORD = None
    skip = set(filter(None, os.environ.get("PMV_REPLAY_SKIP", "").split(",")))
    if not rec:
        return
    rng = random.Random(ctx.seed * 31 + ctx.shard)
    ctx.hit("replay_recorded_calls", len(rec))
    ctx.notes["replay_functions"] = len(set(_name(r[0]) for r in rec))
    # phase 1: shuffled single-threaded replay
    order = list(range(len(rec)))
    rng.shuffle(order)
    for i in order:
        fn, a, k, want = rec[i]
        got = repr(probe.call(fn, *_copy(a), **_copy(k)))
        ctx.ev()
        if got != want:
            ctx.violation("result-depends-on-call-history:" + _name(fn).split(".")[-1], function=_name(fn), args=repr(a)[:300],
                          first_result=want[:300], replayed_result=got[:300], monitor="replay", case=None)
    ctx.hit("replay_shuffled")
    # phase 1t: the message strings are TEMPORARIES (f(line.strip()), f(msg.upper())): each is a new object that dies right after
    # the call, so the next one is usually allocated at the same address - a memo keyed by id(msg) without holding a reference
    # then takes a new message for the old one (the recorded argument objects above all stay alive and never show this)
    rng.shuffle(order)
    nt = 0
    for i in order:
        fn, a, k, want = rec[i]
        if not any(type(x) is str and len(x) > 1 for x in a):
            continue
        got = repr(probe.call(fn, *[(x[:1] + x[1:]) if type(x) is str and len(x) > 1 else x for x in a], **_copy(k)))
        nt += 1
        ctx.ev()
        if got != want:
            ctx.violation("result-depends-on-call-history:" + _name(fn).split(".")[-1], function=_name(fn), args=repr(a)[:300],
                          first_result=want[:300], replayed_result=got[:300], note="arguments passed as short-lived temporaries",
                          monitor="replay", case=None)
    ctx.hit("replay_temporary_arguments", nt)
    # phase 1b: the same calls, each preceded by one of the library's general helpers on the same message string (frame
    # screening with crc(), icao(), df(), ... before decoding is what every application does)
    try:
        import pyModeS
        com = pyModeS.common
        helpers = [(n, getattr(com, n)) for n in ("crc", "icao", "df", "typecode", "hex2bin", "hex2int", "data", "allzeros", "idcode", "altcode")
                   if callable(getattr(com, n, None))]
        helpers.append(("crc_encode", lambda m: com.crc(m, True)))
    except Exception:
        helpers = []
    nint = 0
    for i in order:
        fn, a, k, want = rec[i]
        if not helpers or not a or not isinstance(a[0], str) or not (8 <= len(a[0]) <= 28):
            continue
        hn, hf = helpers[rng.randrange(len(helpers))]
        if nint % 3 == 2 and "malformed" not in skip:
            # ... also on a string that is NOT a frame (a Mode A/C reply, a truncated or empty line): whatever that call does
            # or raises, it must leave nothing behind for the next, well-formed call
            bad_ = rng.choice((a[0][:4], a[0][:13], a[0][:2], "", "7700", a[0] + a[0][:3]))
            probe.call(hf, bad_)
            ctx.hit("replay_after_malformed_helper_call")
        else:
            probe.call(hf, a[0])
        got = repr(probe.call(fn, *_copy(a), **_copy(k)))
        nint += 1
        ctx.ev()
        if got != want:
            ctx.violation("result-depends-on-call-history:" + _name(fn).split(".")[-1], function=_name(fn), args=repr(a)[:300],
                          first_result=want[:300], replayed_result=got[:300], preceded_by="common.%s(%r)" % (hn, a[0]),
                          monitor="replay", case=None)
    ctx.hit("replay_after_helper_call", nint)
    # phase 1d: the same calls with the arguments passed BY NAME (documented parameter names), in shuffled order
    import inspect
    nk = 0
    sigs = {}
    for i in order[:3000]:
        fn, a, k, want = rec[i]
        if not a:
            continue
        if id(fn) not in sigs:
            try:
                ps = list(inspect.signature(fn).parameters.values())
                sigs[id(fn)] = [p_.name for p_ in ps] if all(p_.kind == p_.POSITIONAL_OR_KEYWORD for p_ in ps) else None
            except (TypeError, ValueError):
                sigs[id(fn)] = None
        names = sigs[id(fn)]
        if not names or len(a) > len(names) or set(names[:len(a)]) & set(k):
            continue
        kw = dict(zip(names, _copy(a)))
        kw.update(_copy(k))
        got = repr(probe.call(fn, **kw))
        nk += 1
        ctx.ev()
        if got != want:
            ctx.violation("result-differs-when-arguments-are-passed-by-name:" + _name(fn).split(".")[-1], function=_name(fn),
                          kwargs=repr(kw)[:300], positional_result=want[:300], keyword_result=got[:300], monitor="replay", case=None)
    ctx.hit("replay_keyword_calls", nk)
    # phase 1e: message strings handed over as numpy.str_ (an element of a numpy array of messages) - a genuine str subclass
    try:
        import numpy as np
    except Exception:
        np = None
    ns = 0
    if np is not None and "numpy_str" not in skip:
        for i in order[:3000]:
            fn, a, k, want = rec[i]
            if not any(type(x) is str and len(x) >= 8 for x in a):
                continue
            base = probe.call(fn, *_copy(a), **_copy(k))
            alt = probe.call(fn, *[np.str_(x) if type(x) is str else x for x in _copy(a)], **_copy(k))
            ns += 1
            ctx.ev(2)
            if _norm(alt) != _norm(base) and repr(_norm(alt)) != repr(_norm(base)):
                ctx.violation("result-differs-for-numpy-str-argument:" + _name(fn).split(".")[-1], function=_name(fn), args=repr(a)[:300],
                              with_str=repr(base)[:300], with_numpy_str=repr(alt)[:300], monitor="replay", case=None)
    ctx.hit("replay_numpy_str_calls", ns)
    # phase 1j: hexadecimal digits are case-insensitive, digit by digit: the same frame spelled in upper case, lower case and with
    # every letter's case drawn separately ("8d4A0b...") gives the same answer (a two-character byte table built from "%02X" and
    # "%02x" knows "AB" and "ab" but not "aB")
    nh = 0
    if "hexcase" not in skip:
        for i in order[:3000]:
            fn, a, k, want = rec[i]
            idx = [j for j, x in enumerate(a) if type(x) is str and len(x) >= 14 and len(x) % 2 == 0 and _ishex(x) and x.upper() != x.lower()]
            if not idx:
                continue
            base = probe.call(fn, *_copy(a), **_copy(k))
            for label in ("upper", "lower", "mixed", "mixed"):
                a2 = list(_copy(a))
                for j in idx:
                    x = a[j]
                    a2[j] = x.upper() if label == "upper" else x.lower() if label == "lower" else \
                        "".join(ch.upper() if rng.random() < 0.5 else ch.lower() for ch in x)
                alt = probe.call(fn, *a2, **_copy(k))
                ctx.ev()
                same = (alt[0] == base[0] == "exc" and alt[1] == base[1]) or (alt[0] == base[0] == "ok" and repr(_norm(alt)) == repr(_norm(base)))
                if not same and alt[0] == base[0] == "ok" and type(alt[1]) is str and type(base[1]) is str and alt[1].lower() == base[1].lower() \
                        and any(alt[1] in a2[j] for j in idx):
                    same = True       # a function that hands back a SLICE of its argument (common.data) keeps the caller's spelling
                if not same:
                    ctx.violation("result-depends-on-hex-letter-case:" + _name(fn).split(".")[-1], function=_name(fn), args=repr(a)[:300],
                                  as_recorded=repr(_norm(base))[:200], spelling=label, respelled=repr([a2[j] for j in idx])[:200],
                                  respelled_result=repr(_norm(alt))[:200], monitor="replay", case=None)
                    break
            nh += 1
    ctx.hit("replay_hex_letter_case_calls", nh)
    # phase 1f: ambient settings of the host program (numpy print options, decimal context) are none of the decoders' business
    na = 0
    if np is not None:
        for i in order[:2000]:
            fn, a, k, want = rec[i]
            base = probe.call(fn, *_copy(a), **_copy(k))
            import decimal
            with np.printoptions(threshold=5, edgeitems=1, linewidth=12, precision=2, sign="+", floatmode="fixed", suppress=True), \
                    decimal.localcontext() as dctx:
                dctx.prec = 5          # ... nor is the host's decimal context
                alt = probe.call(fn, *_copy(a), **_copy(k))
            na += 1
            ctx.ev(2)
            if repr(_norm(alt)) != repr(_norm(base)):
                ctx.violation("result-depends-on-ambient-settings:" + _name(fn).split(".")[-1], function=_name(fn), args=repr(a)[:300],
                              default_options=repr(_norm(base))[:300], other_options=repr(_norm(alt))[:300], monitor="replay", case=None)
    ctx.hit("replay_under_other_print_options", na)
    # phase 1g: a host program that turns floating-point anomalies into exceptions (np.seterr(all="raise")) and runtime
    # warnings into errors: a value the decoder discards must not be computed from an invalid operation on the way
    ne = 0
    if np is not None:
        import warnings
        for i in order[:2000]:
            fn, a, k, want = rec[i]
            base = probe.call(fn, *_copy(a), **_copy(k))
            with np.errstate(all="raise"), warnings.catch_warnings():
                warnings.simplefilter("error", RuntimeWarning)
                if _name(fn).split(".")[-1] not in ("alt40mcp", "alt40fms"):
                    # ... and every other warning too (pytest -W error, warnings.simplefilter("error")); the two renamed
                    # aliases of BDS 4,0 are documented to warn
                    warnings.simplefilter("error")
                alt = probe.call(fn, *_copy(a), **_copy(k))
            ne += 1
            ctx.ev(2)
            if repr(_norm(alt)) != repr(_norm(base)):
                ctx.violation("result-depends-on-error-and-warning-policy:" + _name(fn).split(".")[-1], function=_name(fn), args=repr(a)[:300],
                              default_state=repr(_norm(base))[:300], errors_raised=repr(_norm(alt))[:300], monitor="replay", case=None)
    ctx.hit("replay_with_fp_errors_raised", ne)
    # phase 1q: ... and the opposite policy: a host that SILENCES numeric anomalies (np.errstate(all="ignore"), every warning
    # ignored - common in data pipelines).  A function that relies on a warning being raised as an exception (a filter it
    # installed for itself at import) to take a special path loses that path here
    nq = 0
    if np is not None:
        import warnings as _w
        for i in order[:6000]:
            fn, a, k, want = rec[i]
            with np.errstate(all="ignore"), _w.catch_warnings():
                _w.simplefilter("ignore")
                got = repr(probe.call(fn, *_copy(a), **_copy(k)))
            nq += 1
            ctx.ev()
            if got != want:
                ctx.violation("result-depends-on-error-and-warning-policy:" + _name(fn).split(".")[-1], function=_name(fn), args=repr(a)[:300],
                              recorded=want[:300], with_anomalies_and_warnings_silenced=got[:300], monitor="replay", case=None)
    ctx.hit("replay_calls_with_numeric_anomalies_silenced", nq)
    # phase 1h: real-valued arguments handed over as 0-d numpy arrays (an element picked with track[i, ...], an xarray value):
    # the answer is that of the scalar, the caller's array is left untouched, and asking twice gives the same
    nz = 0
    pool0d = {}
    bases0d = []
    if np is not None:
        for i in order[:3000]:
            fn, a, k, want = rec[i]
            idxs = [j for j, x in enumerate(a) if type(x) is float or isinstance(x, np.floating)]
            if not idxs:
                continue
            if any(type(x) is int and abs(x) > 2 ** 53 for x in a):
                continue      # an int beyond 2**53 next to a 0-d float64 array is compared in float64 by numpy itself - not judged
            base = probe.call(fn, *_copy(a), **_copy(k))
            arrs = list(_copy(a))
            for j in idxs:
                arrs[j] = np.array(a[j])      # same dtype as the scalar (float64 for Python floats)
            keep = [arrs[j].copy() for j in idxs]
            alt = probe.call(fn, *arrs, **_copy(k))
            alt2 = probe.call(fn, *arrs, **_copy(k))
            nz += 1
            ctx.ev(3)
            bases0d.append((i, idxs, repr(_norm(base)), base[0]))
            if alt[0] == "exc" and alt[1] in ("TypeError",) and base[0] == "ok":
                continue      # a function may refuse array arguments; not judged
            changed = any(not np.array_equal(arrs[j], kp, equal_nan=True) for j, kp in zip(idxs, keep))
            if changed or repr(_norm(alt)) != repr(_norm(base)) or repr(_norm(alt2)) != repr(_norm(alt)):
                ctx.violation("zero-dim-array-argument-mishandled:" + _name(fn).split(".")[-1], function=_name(fn), args=repr(a)[:300],
                              with_scalar=repr(_norm(base))[:200], with_0d_array=repr(_norm(alt))[:200], second_call=repr(_norm(alt2))[:200],
                              callers_array_modified=bool(changed), monitor="replay", case=None)
        # ... and ONE array object per argument slot that the caller refills in place before every call (a preallocated cell
        # updated with cell[...] = value), call after call: being the same object says nothing about holding the same value
        for i, idxs, base_repr, base_kind in bases0d:
            fn, a, k, want = rec[i]
            pooled = list(_copy(a))
            for j in idxs:
                cell = pool0d.setdefault((j, str(np.asarray(a[j]).dtype)), np.zeros((), dtype=np.asarray(a[j]).dtype))
                cell[...] = a[j]
                pooled[j] = cell
            alt3 = probe.call(fn, *pooled, **_copy(k))
            ctx.ev()
            if not (alt3[0] == "exc" and alt3[1] in ("TypeError",) and base_kind == "ok") and repr(_norm(alt3)) != base_repr:
                ctx.violation("zero-dim-array-argument-mishandled:" + _name(fn).split(".")[-1], function=_name(fn), args=repr(a)[:300],
                              with_scalar=base_repr[:200], with_reused_0d_array_refilled_in_place=repr(_norm(alt3))[:200],
                              monitor="replay", case=None)
    ctx.hit("replay_zero_dim_array_calls", nz)
    # phase 1m: what a call hands back belongs to the caller: clearing / overwriting a returned list, dict or array in place and
    # asking again gives the recorded answer (a cached or module-level object handed out by reference does not)
    nm_ = 0
    for i in order[:6000]:
        fn, a, k, want = rec[i]
        if not want.startswith("('ok', ") or not any(ch in want[:12] for ch in "[{a"):
            continue
        first = probe.call(fn, *_copy(a), **_copy(k))
        v = first[1] if first[0] == "ok" else None
        try:
            if isinstance(v, list):
                v.clear()
                v.append("edited by the caller")
            elif isinstance(v, dict):
                v.clear()
                v["edited"] = "by the caller"
            elif np is not None and isinstance(v, np.ndarray) and v.size and v.flags.writeable:
                v[...] = 0
            else:
                continue
        except Exception:
            continue
        again = repr(probe.call(fn, *_copy(a), **_copy(k)))
        nm_ += 1
        ctx.ev(2)
        if again != want:
            ctx.violation("result-handed-out-by-reference:" + _name(fn).split(".")[-1], function=_name(fn), args=repr(a)[:300],
                          recorded=want[:300], after_the_caller_edited_the_previous_result=again[:300], monitor="replay", case=None)
    ctx.hit("replay_after_caller_edited_result", nm_)
    # phase 1x: the call is made from INSIDE the caller's exception handler (a fallback after a failed look-up: `except KeyError:
    # pos = position_with_ref(...)`) - a bare `raise` in the library then re-raises the caller's exception instead of its own
    nxh = 0
    for i in order[:8000]:
        fn, a, k, want = rec[i]
        try:
            raise KeyError("the caller's own look-up failed")
        except KeyError:
            got = repr(probe.call(fn, *_copy(a), **_copy(k)))
        nxh += 1
        ctx.ev()
        if got != want:
            ctx.violation("result-differs-inside-an-exception-handler:" + _name(fn).split(".")[-1], function=_name(fn), args=repr(a)[:300],
                          recorded=want[:300], inside_except_KeyError=got[:300], monitor="replay", case=None)
    ctx.hit("replay_inside_an_exception_handler", nxh)
    # phase 1n: the call is RE-ENTERED in its own thread: between two lines of the library's code a signal handler (a status timer),
    # a finaliser or a profiling hook of the host program decodes another message and returns; the interrupted call then carries on
    # and must still bring back its own answer (a per-thread scratch record is private to the thread, not to the call).  A line
    # trace function is where Python itself runs such handlers: between two bytecode lines, in the same thread.
    nre = [0, 0]
    # (a library that guards shared state with a plain, non-reentrant lock is correct for every schedule of THREADS - all the
    #  properties quantify over - but cannot be re-entered from a handler in the same thread without waiting for itself: the
    #  phase is not run then, and says so)
    _plain = type(threading.Lock())
    uses_plain_locks = any(isinstance(v_, _plain) for n_, m_ in list(sys.modules.items()) if n_.startswith("pyModeS") and m_ is not None
                           for v_ in list(getattr(m_, "__dict__", {}).values()))
    if uses_plain_locks:
        ctx.hit("replay_re_entry_not_run_library_holds_plain_locks")
    if "reenter" not in skip and not uses_plain_locks:
        from . import core as _core
        prefix = os.path.realpath(os.path.join(_core.REPO, "src")) + os.sep
        by_fn = {}
        for idx_, r_ in enumerate(rec):
            by_fn.setdefault(id(r_[0]), []).append(idx_)
        st = {"inner": None, "left": 0, "bad": None}

        def _line(frame, event, arg):
            if event == "line" and st["left"] > 0 and rng.random() < 0.15:
                st["left"] -= 1
                f2, a2, k2, w2 = st["inner"]
                g2 = repr(probe.call(f2, *_copy(a2), **_copy(k2)))     # untraced: tracing is off while a trace function runs
                nre[1] += 1
                if "CaseTimeout" in g2[:40]:
                    st["left"] = 0          # the watchdog ended a re-entered call that waited for a lock: no further re-entries
                    st["blocked"] = True
                elif g2 != w2 and st["bad"] is None:
                    st["bad"] = (f2, a2, w2, g2)
            return _line

        def _glob(frame, event, arg):
            if event == "call" and os.path.realpath(frame.f_code.co_filename).startswith(prefix):
                return _line
            return None

        for i in order[:2500]:
            fn, a, k, want = rec[i]
            same = by_fn[id(fn)]
            j = rng.choice(same) if rng.random() < 0.6 else rng.randrange(len(rec))
            st.update(inner=rec[j], left=4, bad=None, blocked=False)
            aa, kk = _copy(a), _copy(k)
            blocked = False
            if _core._alarm:
                import signal as _sg
                _sg.alarm(6)       # a re-entered call that waits for a lock its own thread holds never comes back by itself
            sys.settrace(_glob)
            try:
                got = repr(probe.call(fn, *aa, **kk))
            except _core.CaseTimeout:
                blocked = True
            finally:
                sys.settrace(None)
                if _core._alarm:
                    _sg.alarm(0)
            if blocked or st.get("blocked"):
                # a plain (non-reentrant) lock around shared state is correct for every schedule of THREADS, which is all the
                # properties quantify over; that it cannot be re-entered from a handler in the same thread is not judged
                ctx.hit("replay_re_entry_blocked_on_a_lock_not_judged")
                break
            nre[0] += 1
            ctx.ev()
            if got != want:
                ctx.violation("result-differs-when-re-entered-in-the-same-thread:" + _name(fn).split(".")[-1], function=_name(fn), args=repr(a)[:300],
                              recorded=want[:300], interrupted_by=[_name(rec[j][0]), repr(rec[j][1])[:200]], observed=got[:300],
                              monitor="replay", case=None)
            elif st["bad"] is not None:
                f2, a2, w2, g2 = st["bad"]
                ctx.violation("result-differs-when-re-entered-in-the-same-thread:" + _name(f2).split(".")[-1], function=_name(f2), args=repr(a2)[:300],
                              recorded=w2[:300], called_while=[_name(fn), repr(a)[:200]], observed=g2[:300], monitor="replay", case=None)
    ctx.hit("replay_re_entered_calls", nre[0])
    ctx.hit("replay_re_entries_injected", nre[1])
    # phase 1l: the host application logs at DEBUG level (root logger and every pyModeS logger, a handler attached): tracing is
    # for reading, it does not change what a function returns
    import logging as _lg
    nlg = 0

    class _Sink(_lg.Handler):
        def emit(self, record):
            try:
                record.getMessage()
            except Exception:
                pass
    root_ = _lg.getLogger()
    oldlvl, olddis = root_.level, _lg.root.manager.disable
    sink_ = _Sink()
    touched = []
    try:
        root_.addHandler(sink_)
        root_.setLevel(_lg.DEBUG)
        _lg.disable(_lg.NOTSET)
        for nm_, lg_ in list(_lg.root.manager.loggerDict.items()):
            if nm_.startswith("pyModeS") and isinstance(lg_, _lg.Logger):
                touched.append((lg_, lg_.level))
                lg_.setLevel(_lg.DEBUG)
        for i in order[:1500]:
            fn, a, k, want = rec[i]
            got = repr(probe.call(fn, *_copy(a), **_copy(k)))
            nlg += 1
            ctx.ev()
            if got != want:
                ctx.violation("result-depends-on-logging-level:" + _name(fn).split(".")[-1], function=_name(fn), args=repr(a)[:300],
                              recorded=want[:300], with_logging_at_DEBUG=got[:300], monitor="replay", case=None)
    finally:
        for lg_, lv_ in touched:
            lg_.setLevel(lv_)
        root_.setLevel(oldlvl)
        root_.removeHandler(sink_)
        _lg.disable(olddis)
    ctx.hit("replay_with_logging_at_debug", nlg)
    # phase 1s: a detached worker (daemonised, double-forked) whose standard streams are CLOSED: a decoder has nothing to say on
    # them - a "tell the user once" notice or a leftover debug print turns into ValueError there.  (The two aliases that are
    # documented to emit a DeprecationWarning are not asked.)
    ns_ = 0
    import io as _io
    closed_out, closed_err = _io.StringIO(), _io.StringIO()
    closed_out.close()
    closed_err.close()
    for i in order[:1500]:
        fn, a, k, want = rec[i]
        if _name(fn).split(".")[-1] in ("alt40mcp", "alt40fms", "tell"):
            continue
        so, se = sys.stdout, sys.stderr
        sys.stdout, sys.stderr = closed_out, closed_err
        try:
            got = repr(probe.call(fn, *_copy(a), **_copy(k)))
        finally:
            sys.stdout, sys.stderr = so, se
        ns_ += 1
        ctx.ev()
        if got != want:
            ctx.violation("result-depends-on-standard-streams-being-open:" + _name(fn).split(".")[-1], function=_name(fn), args=repr(a)[:300],
                          recorded=want[:300], with_closed_stdout_and_stderr=got[:300], monitor="replay", case=None)
    ctx.hit("replay_with_closed_standard_streams", ns_)
    # phase 1r: the caller is deep in its own stack (a recursive parser, a tree walker, a lowered recursion limit) and leaves the
    # decoder 80 frames of headroom - plenty for code whose call depth does not grow with the length of the message
    nr = 0
    lim = sys.getrecursionlimit()
    depth = 0
    fr_ = sys._getframe()
    while fr_ is not None:
        depth += 1
        fr_ = fr_.f_back
    descend = lim - depth - 80 - 6
    if descend > 50:
        for i in order[:1500]:
            fn, a, k, want = rec[i]
            got = repr(_deep(descend, lambda: probe.call(fn, *_copy(a), **_copy(k))))
            nr += 1
            ctx.ev()
            if got != want:
                ctx.violation("result-depends-on-stack-depth-of-the-caller:" + _name(fn).split(".")[-1], function=_name(fn), args=repr(a)[:300],
                              recorded=want[:300], with_80_frames_of_headroom=got[:300], monitor="replay", case=None)
    # ... and with almost NO headroom: the call dies somewhere inside with RecursionError (any asynchronous error would do: a
    # KeyboardInterrupt, a MemoryError) - that is the caller's problem, but the next ordinary call must not inherit a
    # half-updated memo / scratch state from the one that died
    nx = 0
    if descend > 50:
        for i, h in [(i_, h_) for h_ in range(-7, 14) for i_ in order[:500]]:   # (headroom outermost: consecutive calls are different calls)
            fn, a, k, want = rec[i]
            try:
                tight = _deep(descend + 80 - h, lambda: probe.call(fn, *_copy(a), **_copy(k)))
            except RecursionError:
                tight = None
            if tight is not None and not (tight[0] == "exc" and tight[1] == "RecursionError") and repr(tight) != want:
                # the call did come back: then with the recorded answer - `except Exception: return None` around a helper call
                # turns "out of stack" into "no data"
                ctx.violation("result-differs-near-the-stack-limit:" + _name(fn).split(".")[-1], function=_name(fn), args=repr(a)[:300],
                              recorded=want[:300], with_frames_of_headroom=h, returned=repr(tight)[:300], monitor="replay", case=None)
            got = repr(probe.call(fn, *_copy(a), **_copy(k)))
            nx += 1
            ctx.ev(2)
            if got != want:
                ctx.violation("result-depends-on-call-history:" + _name(fn).split(".")[-1], function=_name(fn), args=repr(a)[:300],
                              first_result=want[:300], replayed_result=got[:300], note="after the same call died of RecursionError with %d frames of headroom" % h,
                              monitor="replay", case=None)
    ctx.hit("replay_after_a_call_that_died_of_recursion", nx)
    ctx.hit("replay_from_a_deep_stack", nr)
    # phase 1i: a flag argument is judged by its truth value: numpy.bool_ (an element of a comparison such as (dfs == 17)[i])
    # and the ints 0 / 1 mean what False / True mean (`if flag is True:` only knows the two singletons)
    nf = 0
    if np is not None:
        for i in order[:4000]:
            fn, a, k, want = rec[i]
            ia = [j for j, x in enumerate(a) if type(x) is bool]
            ik = [j for j, x in k.items() if type(x) is bool]
            if not ia and not ik:
                continue
            base = probe.call(fn, *_copy(a), **_copy(k))
            for conv, label in ((np.bool_, "numpy.bool_"), (int, "int")):
                a2, k2 = list(_copy(a)), dict(_copy(k))
                for j in ia:
                    a2[j] = conv(a[j])
                for j in ik:
                    k2[j] = conv(k[j])
                alt = probe.call(fn, *a2, **k2)
                ctx.ev(2)
                if repr(_norm(alt)) != repr(_norm(base)):
                    ctx.violation("flag-argument-judged-by-identity-not-truth:" + _name(fn).split(".")[-1], function=_name(fn), args=repr(a)[:300],
                                  kwargs=repr(k)[:200], with_bool=repr(_norm(base))[:200], flag_type=label, with_other_flag_type=repr(_norm(alt))[:200],
                                  monitor="replay", case=None)
            nf += 1
    ctx.hit("replay_flag_type_calls", nf)
    # phase 1c: each call preceded by a few calls taken from the workloads of ALL properties (another decoder's early
    # return or exception path may leave a module-level setting behind)
    cpath = os.environ.get("PMV_CORPUS")
    corp = []
    if cpath:
        from . import corpus
        corp = corpus.load(cpath)
    ctx.notes["replay_corpus_calls"] = len(corp)
    if corp:
        nx = 0
        for i in order[:2500]:
            fn, a, k, want = rec[i]
            for _ in range(rng.choice((1, 2, 3))):
                cf, ca, ck = corp[rng.randrange(len(corp))]
                probe.call(cf, *_copy(ca), **_copy(ck))
            got = repr(probe.call(fn, *_copy(a), **_copy(k)))
            nx += 1
            ctx.ev()
            if got != want:
                ctx.violation("result-depends-on-call-history:" + _name(fn).split(".")[-1], function=_name(fn), args=repr(a)[:300],
                              first_result=want[:300], replayed_result=got[:300], preceded_by="calls of other decoders (corpus)",
                              monitor="replay", case=None)
        ctx.hit("replay_after_foreign_calls", nx)
    # phase 2: concurrent replay
    secs = float(os.environ.get("PMV_THREADS_SECONDS", "1.5" if tier == "quick" else "15"))
    nthreads = 4
    stop = time.time() + secs
    bad = []
    counts = [0] * nthreads
    lock = threading.Lock()

    groups = {}
    for idx, r_ in enumerate(rec):
        groups.setdefault(_name(r_[0]), []).append(idx)
    gnames = sorted(groups)
    t_start = time.time()

    def work(t):
        r = random.Random(ctx.seed * 977 + ctx.shard * 13 + t)
        n = len(rec)
        while time.time() < stop and not bad:
            # time slices of 25 ms: in even slices ALL threads hammer the recorded calls of one function (rotating through the
            # functions, each shard starting elsewhere), in odd slices each thread replays a random window of mixed calls
            sl = int((time.time() - t_start) / 0.025)
            if sl % 2 == 0:
                g = groups[gnames[(sl // 2 + ctx.shard * 7) % len(gnames)]]
                if (sl // 2) % 2 == 1 and len(g) > 4:
                    # ... every other such slice on a HANDFUL of its calls only, so that the threads keep asking for the very
                    # messages the others have just decoded (last-result memos, check-then-read on a shared slot)
                    j0 = (sl * 31) % (len(g) - 3)
                    g = g[j0:j0 + 4]
                picks = [g[r.randrange(len(g))] for _ in range(30)]
            else:
                base = r.randrange(n)
                picks = [(base + r.randrange(8)) % n for _ in range(30)]
            # a call is often made twice or three times in a row (velocity() then speed_heading() on the same squitter)
            picks = [i2 for i_ in picks for i2 in [i_] * (1 if r.random() < 0.6 else r.choice((2, 3)))]
            for i_ in picks:
                fn, a, k, want = rec[i_]
                got = repr(probe.call(fn, *_copy(a), **_copy(k)))
                counts[t] += 1
                if got != want:
                    with lock:
                        bad.append((fn, a, want, got))
                    return

    old = sys.getswitchinterval()
    sys.setswitchinterval(1e-6)
    try:
        ths = [threading.Thread(target=work, args=(t,), daemon=True) for t in range(nthreads)]
        for th in ths:
            th.start()
        for th in ths:
            th.join(timeout=secs + 60)
    finally:
        sys.setswitchinterval(old)
    # phase 2b: a burst of MANY threads (48) on one function at a time: a pool of scratch rows / a fixed number of slots sized
    # for "more threads than anyone runs" is exhausted only when more callers than slots are inside the function at once
    if not bad:
        many = 48
        secs_b = float(os.environ.get("PMV_MANY_THREADS_SECONDS", "2.1" if tier == "quick" else "12"))
        stop_b = time.time() + secs_b
        counts_b = [0] * many
        t_start_b = time.time()

        def work_b(t):
            r = random.Random(ctx.seed * 131 + ctx.shard * 17 + t)
            while time.time() < stop_b and not bad:
                sl = int((time.time() - t_start_b) / 0.3)
                g = groups[gnames[(sl + ctx.shard) % len(gnames)]]
                for _ in range(20):
                    fn, a, k, want = rec[g[r.randrange(len(g))]]
                    plain = not k and all(type(x) in (str, int, float, bool, type(None)) for x in a)
                    for _rep in range(6):
                        # (immutable arguments are passed as they are and the call is made directly: the threads should spend
                        #  their time INSIDE the function, not in the harness)
                        if plain:
                            try:
                                got = repr(("ok", fn(*a)))
                            except BaseException as e:  # noqa
                                got = repr(("exc", type(e).__name__, str(e)[:200]))
                        else:
                            got = repr(probe.call(fn, *_copy(a), **_copy(k)))
                        counts_b[t] += 1
                        if got != want:
                            with lock:
                                bad.append((fn, a, want, got))
                            return
        old = sys.getswitchinterval()
        sys.setswitchinterval(1e-5)      # (with 48 threads a 1 us interval mostly measures the hand-over itself)
        try:
            ths = [threading.Thread(target=work_b, args=(t,), daemon=True) for t in range(many)]
            for th in ths:
                th.start()
            for th in ths:
                th.join(timeout=secs_b + 120)
        finally:
            sys.setswitchinterval(old)
        counts.append(sum(counts_b))
        ctx.hit("replay_calls_from_48_threads", sum(counts_b))
        if bad:
            nthreads = many
    ctx.ev(sum(counts))
    ctx.hit("replay_concurrent_calls", sum(counts))
    ctx.notes["replay_threads"] = nthreads
    _cold(ctx, tier, rec, rng)
    for fn, a, want, got in bad[:3]:
        ctx.violation("result-differs-under-concurrent-calls:" + _name(fn).split(".")[-1], function=_name(fn), args=repr(a)[:300],
                      alone=want[:300], concurrent=got[:300], threads=nthreads, monitor="replay", case=None)


def _cold(ctx, tier, rec, rng):
    """phase 3: first calls of a fresh process made by 8 threads at once (see pmv/coldstart.py)"""
    import json
    import pickle
    import subprocess
    import tempfile
    from . import corpus, core
    idx = corpus._index()
    ser = []
    for fn, a, k, want in rec:
        where = idx.get(id(fn))
        if where is None and hasattr(fn, "__wrapped__"):
            where = idx.get(id(fn.__wrapped__))
        if where:
            ser.append((where[0], where[1], a, k, want))
    if not ser:
        return
    rng.shuffle(ser)
    ser = ser[:400]
    runs = int(os.environ.get("PMV_COLD_RUNS", "3" if tier == "quick" else "24"))
    fd, path = tempfile.mkstemp(prefix="pmv-cold-", suffix=".pkl")
    try:
        with os.fdopen(fd, "wb") as f:
            pickle.dump(ser, f)
        env = dict(os.environ)
        env["PYTHONPATH"] = os.pathsep.join([os.path.join(core.REPO, "src"), core.VERIF])
        env.pop("PMV_C_SO", None)
        n = 0
        for j in range(runs):
            try:
                # interpreter flags a deployment may use: assertions off (-O), docstrings stripped as well (-OO)
                flags = ([], ["-O"], ["-OO"], ["-bb"])[(j + ctx.shard) % 4]     # ... str / bytes comparisons are errors (-bb)
                ctx.hit("replay_cold_start_flags_" + ("".join(flags) or "default"))
                strict = ([], ["strict"], ["ambient"], ["closed"], ["yield"])[(j + ctx.shard // 3) % 5]
                if strict == ["strict"]:
                    ctx.hit("replay_cold_start_strict_numeric_policy")
                elif strict == ["closed"]:
                    ctx.hit("replay_cold_start_closed_standard_streams")
                elif strict == ["yield"]:
                    ctx.hit("replay_cold_start_yield_injection")
                elif strict:
                    ctx.hit("replay_cold_start_print_options_set_before_import")
                # the workers run with PYTHONHASHSEED=0; a deployment does not: every fresh interpreter gets another string-hash
                # seed, so a result that depends on the iteration order of a set / on hash() of a string differs from the recording
                env["PYTHONHASHSEED"] = str(1 + (ctx.seed * 977 + ctx.shard * 131 + j * 17) % 4000000000)
                p = subprocess.run([sys.executable] + flags + ["-m", "pmv.coldstart", path, str(ctx.shard * 31 + j * 7 + ctx.seed), "8"] + strict,
                                   capture_output=True, text=True, timeout=120, env=env, cwd=core.VERIF)
                out = json.loads(p.stdout.strip().splitlines()[-1]) if p.stdout.strip() else None
            except Exception:
                out = None
            if out is None:
                ctx.hit("replay_cold_start_failed_runs")
                continue
            n += 1
            for w in out[:2]:
                ctx.violation("result-differs-in-a-fresh-interpreter:" + w["function"].split(".")[-1], monitor="replay",
                              case=None, interpreter_flags=("".join(flags) or "default") + (" + np.seterr(all=raise) before first use" if strict == ["strict"] else " + standard streams closed" if strict == ["closed"] else " + threads yield at random lines of library code" if strict == ["yield"] else " + numpy print options / decimal context set before import" if strict else ""), **w)
        ctx.hit("replay_cold_start_processes", n)
    finally:
        try:
            os.remove(path)
        except OSError:
            pass


def _deep(k, thunk):
    return thunk() if k <= 0 else _deep(k - 1, thunk)


def _ishex(x):
    try:
        int(x, 16)
        return not x.startswith(("0x", "0X", "+", "-", " ")) and "_" not in x
    except ValueError:
        return False


def _norm(x):
    """results with numpy scalars / arrays / str subclasses mapped to plain Python values (for comparisons across argument types)"""
    try:
        import numpy as np
        if isinstance(x, np.ndarray):
            return _norm(x.tolist())
        if isinstance(x, np.generic):
            return _norm(x.item())
    except Exception:
        pass
    if isinstance(x, str):
        return str(x)
    if isinstance(x, (list, tuple)):
        return tuple(_norm(v) for v in x)
    if isinstance(x, dict):
        return {str(k_): _norm(v) for k_, v in x.items()}
    return x


def _copy(x):
    import copy
    try:
        return copy.deepcopy(x)
    except Exception:
        return x
