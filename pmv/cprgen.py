"""Position generators shared by the CPR properties (C03, C04, C05, C17)."""
import math

from .ref import cpr


def band_mid(nl):
    """a latitude in the middle of NL band nl (1..59), northern hemisphere"""
    if nl == 1:
        return 88.5
    hi = cpr.TRANS[nl]
    lo = cpr.TRANS[nl + 1] if nl < 59 else 0.0
    return (lo + hi) / 2


def rand_sphere_lat(rng):
    return math.degrees(math.asin(rng.uniform(-1, 1)))


DELTAS = [1e-6, 1e-5, 1e-4, 1e-3, 5e-3, 0.01, 0.02, 0.05, 0.1, 0.2]


def directed_lats(rng, k):
    """k latitudes near NL transitions, +-87, poles and the equator"""
    out = []
    tr = list(cpr.TRANS.values())
    for _ in range(k):
        c = rng.random()
        if c < 0.6:
            t = rng.choice(tr)
            lat = t + rng.choice((-1, 1)) * rng.choice(DELTAS) * rng.uniform(0.5, 1.5)
        elif c < 0.7:
            lat = 87.0 + rng.uniform(-0.003, 0.003)
        elif c < 0.8:
            lat = 90.0 - abs(rng.choice(DELTAS) * rng.uniform(0, 1.5))
        elif c < 0.9:
            lat = rng.uniform(-0.1, 0.1)
        else:
            lat = rng.choice((0.0, 87.0, 90.0, 89.999, 10.0, 30.508474576271183))
        lat = max(-90.0, min(90.0, lat))
        if rng.random() < 0.5:
            lat = -lat
        out.append(lat)
    return out


def directed_lon(rng, lat, i=0, surface=False):
    c = rng.random()
    if c < 0.35:
        return rng.uniform(-180, 180)
    if c < 0.5:
        return rng.choice((0.0, -180.0, 179.999999, -179.999999, 90.0, -90.0, 1e-7, -1e-7))
    if c < 0.65:
        return max(-180.0, min(179.9999999, rng.choice((0.0, 180.0, -180.0, 90.0, -90.0)) + rng.uniform(-0.3, 0.3)))
    # near a zone edge
    nl = cpr.NL(lat)
    z = (90.0 if surface else 360.0) / max(nl - i, 1)
    kmax = int(360.0 / z)
    e = rng.randrange(0, kmax + 1) * z + rng.choice((-1, 1)) * rng.choice((1e-7, 1e-5, 1e-3, 0.01))
    return (e + 180.0) % 360.0 - 180.0


def wrap180(lon):
    return (lon + 180.0) % 360.0 - 180.0
